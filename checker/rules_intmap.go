package main

// REP-INTMAP — structural invariants of the open-addressing table that holds struct
// fields and methods (intmap.go).  The lookups stop only at an empty slot, so they are
// correct exactly when (1) every probe walks home, home+1, ... modulo the table size,
// the same sequence in every operation, (2) the table always keeps an empty slot and
// its size stays a power of two so that `& mask` is `mod size`.

import (
	"fmt"
	"go/ast"
	"go/constant"
	"go/token"
	"go/types"
	"sort"
	"strings"
)

// intMapFuncs: the table's own functions plus the new helpers they call.
func (c *Ctx) intMapFuncs() []*ast.FuncDecl {
	seen := map[*ast.FuncDecl]bool{}
	var out []*ast.FuncDecl
	for _, n := range c.FuncNames() {
		if strings.HasPrefix(n, "intMap.") || n == "newIntMap" {
			for _, fd := range c.withHelpers(c.Func(n)) {
				if !seen[fd] && fd.Body != nil {
					seen[fd] = true
					out = append(out, fd)
				}
			}
		}
	}
	return out
}

// isIntMapField reports whether e is X.<field> with X an intMap / *intMap.
func (c *Ctx) isIntMapField(e ast.Expr, field string) bool {
	sel, ok := unparen(e).(*ast.SelectorExpr)
	if !ok || sel.Sel.Name != field {
		return false
	}
	t := c.TypeOf(sel.X)
	if t == nil {
		return false
	}
	if p, ok := t.Underlying().(*types.Pointer); ok {
		t = p.Elem()
	}
	return isNamed(t, "intMap")
}

// maskFlow: forward must-analysis "this integer variable currently holds a slot index
// reduced modulo the table size".
type maskFlow struct {
	c       *Ctx
	r       *R
	fn      string
	helpers map[types.Object]bool // helpers whose first result is a reduced index (or negative sentinel)
	sites   int
	bad     map[string]string
	onReturn func(*ast.ReturnStmt, mstate)
	argLv    map[types.Object][]int // levels of the arguments seen at calls of new helpers
}

// levels: 0 unknown, 1 reduced (0 <= v < size), 2 reduced+1 (0 < v <= size)
type mstate map[types.Object]int

func (s mstate) clone() mstate {
	n := mstate{}
	for k, v := range s {
		n[k] = v
	}
	return n
}

func meet(a, b mstate) mstate {
	if a == nil {
		return b.clone()
	}
	n := mstate{}
	for k, v := range a {
		if v != 0 && b[k] == v {
			n[k] = v
		}
	}
	return n
}

func sameState(a, b mstate) bool {
	for k, v := range a {
		if v != b[k] {
			return false
		}
	}
	for k, v := range b {
		if v != a[k] {
			return false
		}
	}
	return true
}

// reduced: is the value of e a reduced slot index in state s?
func (m *maskFlow) reduced(e ast.Expr, s mstate) bool { return m.level(e, s) == 1 }

func (m *maskFlow) isTableLen(e ast.Expr) bool {
	if m.c.isIntMapField(e, "size") {
		return true
	}
	if call, ok := unparen(e).(*ast.CallExpr); ok && m.c.CalleeName(call) == "builtin.len" && len(call.Args) == 1 && m.c.isIntMapField(call.Args[0], "pairs") {
		return true
	}
	return false
}

func (m *maskFlow) level(e ast.Expr, s mstate) int {
	if v, ok := m.c.ConstInt(e); ok && v == 0 {
		return 1
	}
	switch x := unparen(e).(type) {
	case *ast.Ident:
		if o := m.c.Obj(x); o != nil {
			return s[o]
		}
	case *ast.BinaryExpr:
		switch x.Op {
		case token.AND:
			if m.c.isIntMapField(x.X, "mask") || m.c.isIntMapField(x.Y, "mask") {
				return 1
			}
		case token.REM:
			if m.isTableLen(x.Y) {
				return 1
			}
		case token.ADD:
			if v, ok := m.c.ConstInt(x.Y); ok && v == 1 && m.level(x.X, s) == 1 {
				return 2
			}
			if v, ok := m.c.ConstInt(x.X); ok && v == 1 && m.level(x.Y, s) == 1 {
				return 2
			}
		}
	case *ast.CallExpr:
		if o := m.c.Callee(x); o != nil && m.helpers[o] {
			return 1
		}
	}
	return 0
}

// wrapIf: `if v > X.mask { v = 0 }` (or v >= size, v == size, v == len(pairs)) — the
// other way of writing the wrap, valid for a variable that is a reduced index plus one.
func (m *maskFlow) wrapIf(x *ast.IfStmt) types.Object {
	if x.Init != nil || x.Else != nil || len(x.Body.List) != 1 {
		return nil
	}
	be, ok := unparen(x.Cond).(*ast.BinaryExpr)
	if !ok {
		return nil
	}
	id, ok := unparen(be.X).(*ast.Ident)
	if !ok {
		return nil
	}
	condOK := be.Op == token.GTR && m.c.isIntMapField(be.Y, "mask") ||
		(be.Op == token.GEQ || be.Op == token.EQL) && m.isTableLen(be.Y)
	if !condOK {
		return nil
	}
	as, ok := x.Body.List[0].(*ast.AssignStmt)
	if !ok || as.Tok != token.ASSIGN || len(as.Lhs) != 1 || len(as.Rhs) != 1 {
		return nil
	}
	l, ok := unparen(as.Lhs[0]).(*ast.Ident)
	if !ok || m.c.Obj(l) != m.c.Obj(id) {
		return nil
	}
	if v, ok := m.c.ConstInt(as.Rhs[0]); !ok || v != 0 {
		return nil
	}
	return m.c.Obj(id)
}

// visitExpr checks every pairs[...] access inside e.
func (m *maskFlow) visitExpr(e ast.Node, s mstate) {
	if e == nil {
		return
	}
	ast.Inspect(e, func(n ast.Node) bool {
		if _, ok := n.(*ast.FuncLit); ok {
			return false
		}
		if call, ok := n.(*ast.CallExpr); ok && m.argLv != nil {
			if o := m.c.Callee(call); o != nil && m.c.isNewHelper(o) {
				lv := m.argLv[o]
				for i, a := range call.Args {
					l := m.level(a, s)
					if i < len(lv) {
						if lv[i] != l {
							lv[i] = 0
						}
					} else {
						lv = append(lv, l)
					}
				}
				m.argLv[o] = lv
			}
		}
		ix, ok := n.(*ast.IndexExpr)
		if !ok || !m.c.isIntMapField(ix.X, "pairs") {
			return true
		}
		m.sites++
		if !m.reduced(ix.Index, s) {
			key := m.fn + " " + nosp(m.c.Src(ix))
			if _, dup := m.bad[key]; !dup {
				m.bad[key] = m.c.Pos(ix)
			}
		}
		return true
	})
}

type flowOut struct {
	fall  mstate   // state at normal completion (nil = does not complete)
	conts []mstate // states at continue
	brks  []mstate // states at break
}

func (m *maskFlow) assign(lhs []ast.Expr, rhs []ast.Expr, tok token.Token, s mstate) {
	// evaluate the right-hand sides in the old state
	vals := make([]int, len(lhs))
	if len(rhs) == 1 && len(lhs) > 1 && (tok == token.ASSIGN || tok == token.DEFINE) {
		// i, ok := m.find(key): the first result of a helper that returns a reduced index
		vals[0] = m.level(rhs[0], s)
	}
	if len(lhs) == len(rhs) {
		for i := range lhs {
			switch tok {
			case token.ASSIGN, token.DEFINE:
				vals[i] = m.level(rhs[i], s)
			case token.AND_ASSIGN:
				if m.c.isIntMapField(rhs[i], "mask") {
					vals[i] = 1
				}
			case token.REM_ASSIGN:
				if m.isTableLen(rhs[i]) {
					vals[i] = 1
				}
			case token.ADD_ASSIGN:
				if v, ok := m.c.ConstInt(rhs[i]); ok && v == 1 && m.level(lhs[i], s) == 1 {
					vals[i] = 2
				}
			}
		}
	}
	for i, l := range lhs {
		if id, ok := unparen(l).(*ast.Ident); ok && id.Name != "_" {
			if o := m.c.Obj(id); o != nil {
				s[o] = vals[i]
			}
		}
	}
}

func (m *maskFlow) block(list []ast.Stmt, s mstate) flowOut {
	out := flowOut{}
	cur := s
	for _, st := range list {
		if cur == nil {
			break
		}
		o := m.stmt(st, cur)
		out.conts = append(out.conts, o.conts...)
		out.brks = append(out.brks, o.brks...)
		cur = o.fall
	}
	out.fall = cur
	return out
}

func (m *maskFlow) stmt(st ast.Stmt, s mstate) flowOut {
	switch x := st.(type) {
	case *ast.BlockStmt:
		return m.block(x.List, s)
	case *ast.AssignStmt:
		for _, e := range x.Rhs {
			m.visitExpr(e, s)
		}
		for _, e := range x.Lhs {
			m.visitExpr(e, s)
		}
		m.assign(x.Lhs, x.Rhs, x.Tok, s)
		return flowOut{fall: s}
	case *ast.IncDecStmt:
		m.visitExpr(x.X, s)
		if id, ok := unparen(x.X).(*ast.Ident); ok {
			if o := m.c.Obj(id); o != nil {
				if x.Tok == token.INC && s[o] == 1 {
					s[o] = 2
				} else {
					s[o] = 0
				}
			}
		}
		return flowOut{fall: s}
	case *ast.DeclStmt:
		if gd, ok := x.Decl.(*ast.GenDecl); ok {
			for _, sp := range gd.Specs {
				if vs, ok := sp.(*ast.ValueSpec); ok {
					var lhs []ast.Expr
					for _, n := range vs.Names {
						lhs = append(lhs, n)
					}
					for _, v := range vs.Values {
						m.visitExpr(v, s)
					}
					m.assign(lhs, vs.Values, token.DEFINE, s)
				}
			}
		}
		return flowOut{fall: s}
	case *ast.ExprStmt:
		m.visitExpr(x.X, s)
		return flowOut{fall: s}
	case *ast.ReturnStmt:
		for _, e := range x.Results {
			m.visitExpr(e, s)
		}
		if m.onReturn != nil {
			m.onReturn(x, s)
		}
		return flowOut{}
	case *ast.BranchStmt:
		switch x.Tok {
		case token.BREAK:
			return flowOut{brks: []mstate{s}}
		case token.CONTINUE:
			return flowOut{conts: []mstate{s}}
		}
		return flowOut{fall: s}
	case *ast.IfStmt:
		if o := m.wrapIf(x); o != nil && s[o] == 2 {
			s[o] = 1
			return flowOut{fall: s}
		}
		if x.Init != nil {
			o := m.stmt(x.Init, s)
			s = o.fall
		}
		m.visitExpr(x.Cond, s)
		a := m.block(x.Body.List, s.clone())
		var b flowOut
		if x.Else != nil {
			b = m.stmt(x.Else, s.clone())
		} else {
			b = flowOut{fall: s.clone()}
		}
		out := flowOut{conts: append(a.conts, b.conts...), brks: append(a.brks, b.brks...)}
		switch {
		case a.fall == nil:
			out.fall = b.fall
		case b.fall == nil:
			out.fall = a.fall
		default:
			out.fall = meet(a.fall, b.fall)
		}
		return out
	case *ast.SwitchStmt:
		if x.Init != nil {
			s = m.stmt(x.Init, s).fall
		}
		m.visitExpr(x.Tag, s)
		var fall mstate
		out := flowOut{}
		hasDefault := false
		for _, cc := range x.Body.List {
			cl := cc.(*ast.CaseClause)
			if cl.List == nil {
				hasDefault = true
			}
			for _, e := range cl.List {
				m.visitExpr(e, s)
			}
			o := m.block(cl.Body, s.clone())
			out.conts = append(out.conts, o.conts...)
			for _, b := range o.brks { // break leaves the switch
				fall = meet(fall, b)
			}
			if o.fall != nil {
				fall = meet(fall, o.fall)
			}
		}
		if !hasDefault {
			fall = meet(fall, s)
		}
		out.fall = fall
		return out
	case *ast.ForStmt:
		if x.Init != nil {
			s = m.stmt(x.Init, s).fall
		}
		bounded := m.boundedVar(x)
		head := s.clone()
		var exit mstate
		for iter := 0; iter < 6; iter++ {
			in := head.clone()
			if bounded != nil {
				in[bounded] = 1
			}
			quiet := iter < 5
			_ = quiet
			save := m.bad
			saveSites := m.sites
			m.bad = map[string]string{}
			m.visitExpr(x.Cond, in)
			o := m.block(x.Body.List, in.clone())
			back := o.fall
			for _, cs := range o.conts {
				back = meet(back, cs)
			}
			if back != nil && x.Post != nil {
				back = m.stmt(x.Post, back).fall
			}
			next := s.clone()
			if back != nil {
				next = meet(next, back)
			}
			// exits: the condition failing at the head, or a break
			exit = nil
			if x.Cond != nil {
				exit = head.clone()
			}
			for _, b := range o.brks {
				exit = meet(exit, b)
			}
			stable := sameState(next, head)
			found := m.bad
			m.bad = save
			if stable {
				for k, v := range found {
					if _, dup := m.bad[k]; !dup {
						m.bad[k] = v
					}
				}
				break
			}
			m.sites = saveSites
			head = next
		}
		return flowOut{fall: exit}
	case *ast.RangeStmt:
		m.visitExpr(x.X, s)
		// key/value of a range are not reduced indices (a range over the whole table yields in-range keys)
		in := s.clone()
		if id, ok := x.Key.(*ast.Ident); ok && id.Name != "_" {
			if o := m.c.Obj(id); o != nil {
				in[o] = 0
				if m.c.isIntMapField(x.X, "pairs") {
					in[o] = 1
				}
			}
		}
		// conservative: variables assigned in the body are unknown at the head
		ast.Inspect(x.Body, func(n ast.Node) bool {
			switch a := n.(type) {
			case *ast.AssignStmt:
				for _, l := range a.Lhs {
					if id, ok := unparen(l).(*ast.Ident); ok {
						if o := m.c.Obj(id); o != nil && a.Tok != token.DEFINE {
							in[o] = 0
						}
					}
				}
			case *ast.IncDecStmt:
				if id, ok := unparen(a.X).(*ast.Ident); ok {
					if o := m.c.Obj(id); o != nil {
						in[o] = 0
					}
				}
			}
			return true
		})
		o := m.block(x.Body.List, in.clone())
		exit := in.clone()
		for _, b := range o.brks {
			exit = meet(exit, b)
		}
		return flowOut{fall: exit}
	}
	// anything else: check the accesses it contains in the current state
	m.visitExpr(st, s)
	return flowOut{fall: s}
}

// boundedVar: `for v := ...; v < len(X.pairs) (or X.size); ...` — v is in range inside the body.
func (m *maskFlow) boundedVar(x *ast.ForStmt) types.Object {
	be, ok := unparen(x.Cond).(*ast.BinaryExpr)
	if !ok || be.Op != token.LSS {
		return nil
	}
	id, ok := unparen(be.X).(*ast.Ident)
	if !ok {
		return nil
	}
	okBound := m.c.isIntMapField(be.Y, "size")
	if call, isCall := unparen(be.Y).(*ast.CallExpr); isCall && m.c.CalleeName(call) == "builtin.len" && len(call.Args) == 1 && m.c.isIntMapField(call.Args[0], "pairs") {
		okBound = true
	}
	if !okBound {
		return nil
	}
	// the variable starts at a non-negative constant and only increases
	if as, ok := x.Init.(*ast.AssignStmt); !ok || len(as.Rhs) != 1 {
		return nil
	} else if v, isConst := m.c.ConstInt(as.Rhs[0]); !isConst || v < 0 {
		return nil
	}
	return m.c.Obj(id)
}

func ruleRepIntMap(c *Ctx, r *R) {
	fds := c.intMapFuncs()
	if len(fds) < 8 {
		r.undecided("intMap", "-", fmt.Sprintf("only %d functions of the field table found", len(fds)))
		return
	}
	// ---- helpers that return a reduced index (or a negative sentinel) ----
	helpers := map[types.Object]bool{}
	for round := 0; round < 3; round++ {
		for _, fd := range fds {
			o := c.Info.Defs[fd.Name]
			if o == nil || !c.isNewHelper(o) || fd.Type.Results == nil || len(fd.Type.Results.List) == 0 {
				continue
			}
			m := &maskFlow{c: c, r: r, fn: fd.Name.Name, helpers: helpers, bad: map[string]string{}}
			okAll, n := true, 0
			m.checkReturns(fd, &okAll, &n)
			if okAll && n > 0 {
				helpers[o] = true
			}
		}
	}
	// ---- P1: every slot access uses a reduced index ----
	total := 0
	// levels of helper parameters, from the arguments at every call site (three rounds
	// reach helpers called from helpers)
	paramLv := map[types.Object][]int{}
	initState := func(fd *ast.FuncDecl) mstate {
		st := mstate{}
		lv := paramLv[c.Info.Defs[fd.Name]]
		i := 0
		for _, f := range fd.Type.Params.List {
			for _, nm := range f.Names {
				if i < len(lv) && lv[i] != 0 {
					if o := c.Info.Defs[nm]; o != nil {
						st[o] = lv[i]
					}
				}
				i++
			}
		}
		return st
	}
	for round := 0; round < 3; round++ {
		next := map[types.Object][]int{}
		for _, fd := range fds {
			m := &maskFlow{c: c, r: r, fn: fd.Name.Name, helpers: helpers, bad: map[string]string{}, argLv: next}
			m.block(fd.Body.List, initState(fd))
		}
		paramLv = next
	}
	// a helper that is also called from outside the table's own functions gets no assumption
	inFds := map[*ast.FuncDecl]bool{}
	for _, fd := range fds {
		inFds[fd] = true
	}
	for _, nm := range c.FuncNames() {
		fd := c.Func(nm)
		if fd.Body == nil || inFds[fd] {
			continue
		}
		ast.Inspect(fd.Body, func(n ast.Node) bool {
			if call, ok := n.(*ast.CallExpr); ok {
				if o := c.Callee(call); o != nil {
					delete(paramLv, o)
				}
			}
			return true
		})
	}
	for _, fd := range fds {
		name := fd.Name.Name
		if fd.Recv != nil {
			name = "intMap." + name
		}
		m := &maskFlow{c: c, r: r, fn: name, helpers: helpers, bad: map[string]string{}}
		m.block(fd.Body.List, initState(fd))
		total += m.sites
		var keys []string
		for k := range m.bad {
			keys = append(keys, k)
		}
		sort.Strings(keys)
		for _, k := range keys {
			r.fail("probe "+k, m.bad[k], "the slot index of this access is not reduced modulo the table size on every path to it (`i &= m.mask` after each step): the probe runs off the end of the table instead of wrapping to slot 0, so an entry displaced past the last slot is stored by one operation and not found by another (a field store is dropped, or a method is missing)")
		}
		if len(keys) == 0 && m.sites > 0 {
			r.ok("probe "+name, fmt.Sprintf("%d slot accesses, each under a reduced index", m.sites))
		}
	}
	if total < 10 {
		r.undecided("probe", "-", fmt.Sprintf("only %d slot accesses found", total))
	}
	// ---- P1b: the probe step is one slot ----
	for _, fd := range fds {
		idx := map[types.Object]bool{}
		for round := 0; round < 3; round++ {
			ast.Inspect(fd.Body, func(n ast.Node) bool {
				switch x := n.(type) {
				case *ast.IndexExpr:
					if c.isIntMapField(x.X, "pairs") {
						if id, ok := unparen(x.Index).(*ast.Ident); ok && c.Obj(id) != nil {
							idx[c.Obj(id)] = true
						}
					}
				case *ast.AssignStmt:
					if len(x.Lhs) == len(x.Rhs) {
						for i, l := range x.Lhs {
							// a variable copied into an index variable (prev, i = i, i+1) is one too
							if li, ok := unparen(l).(*ast.Ident); ok && idx[c.Obj(li)] {
								ast.Inspect(x.Rhs[i], func(k ast.Node) bool {
									if id, ok := k.(*ast.Ident); ok {
										if v, isVar := c.Obj(id).(*types.Var); isVar && !v.IsField() && isIntegerType(v.Type()) {
											idx[v] = true
										}
									}
									return true
								})
							}
						}
					}
				}
				return true
			})
		}
		stepOK := func(e ast.Expr) bool {
			be, ok := unparen(e).(*ast.BinaryExpr)
			if !ok {
				return true
			}
			switch be.Op {
			case token.ADD:
				for _, side := range []ast.Expr{be.X, be.Y} {
					if v, ok := c.ConstInt(side); ok {
						return v == 1
					}
				}
				return false
			case token.AND, token.REM:
				return true
			}
			return false
		}
		ast.Inspect(fd.Body, func(n ast.Node) bool {
			switch x := n.(type) {
			case *ast.IncDecStmt:
				if id, ok := unparen(x.X).(*ast.Ident); ok && idx[c.Obj(id)] && x.Tok == token.DEC {
					r.fail("step "+fd.Name.Name+" "+id.Name, c.Pos(x), "the probe index "+id.Name+" is decremented: every operation must walk home, home+1, ... in the same direction")
				}
			case *ast.AssignStmt:
				for i, l := range x.Lhs {
					id, ok := unparen(l).(*ast.Ident)
					if !ok || !idx[c.Obj(id)] {
						continue
					}
					bad := false
					switch x.Tok {
					case token.ADD_ASSIGN:
						v, isC := c.ConstInt(x.Rhs[0])
						bad = !isC || v != 1
					case token.AND_ASSIGN, token.REM_ASSIGN:
					case token.ASSIGN, token.DEFINE:
						if len(x.Lhs) == len(x.Rhs) {
							bad = !stepOK(x.Rhs[i])
						}
					default:
						bad = true
					}
					if bad {
						r.fail("step "+fd.Name.Name+" "+id.Name, c.Pos(x), "the probe index "+id.Name+" advances by something other than one slot ("+c.Src(x)+"): this operation visits a different slot sequence than the others, so it misses entries they stored")
					}
				}
			}
			return true
		})
	}
	r.ok("step", "probe indices advance by exactly one slot")
	// ---- P2: no scan over a part of the table ----
	for _, fd := range fds {
		ast.Inspect(fd.Body, func(n ast.Node) bool {
			rs, ok := n.(*ast.RangeStmt)
			if !ok {
				return true
			}
			if se, ok := unparen(rs.X).(*ast.SliceExpr); ok && c.isIntMapField(se.X, "pairs") && (se.Low != nil || se.High != nil) {
				r.fail("scan "+fd.Name.Name, c.Pos(rs), "ranges over a part of the table ("+c.Src(rs.X)+"): the scan ends at the last slot instead of wrapping to slot 0, while insertion wraps — displaced entries become unreachable")
			}
			return true
		})
	}
	// ---- P3: geometry: mask = size-1, an empty slot always remains, sizes are powers of two ----
	if fd := c.Func("intMap.init"); fd != nil {
		var sizeParam string
		if len(fd.Type.Params.List) > 0 && len(fd.Type.Params.List[0].Names) > 0 {
			sizeParam = fd.Type.Params.List[0].Names[0].Name
		}
		assigned := map[string]ast.Expr{}
		ast.Inspect(fd.Body, func(n ast.Node) bool {
			as, ok := n.(*ast.AssignStmt)
			if !ok || len(as.Lhs) != len(as.Rhs) {
				return true
			}
			for i, l := range as.Lhs {
				for _, f := range []string{"mask", "size", "max", "min", "pairs", "total"} {
					if c.isIntMapField(l, f) {
						assigned[f] = as.Rhs[i]
					}
				}
			}
			return true
		})
		geomOK := func(f string, pred func(size, v int64) bool, want, msg string) {
			e := assigned[f]
			if e == nil {
				r.fail("geometry "+f, c.Pos(fd), "intMap.init does not set "+f+": "+msg)
				return
			}
			for size := int64(16); size <= 1<<20; size <<= 1 {
				v, err := c.intEval(e, map[string]int64{sizeParam: size})
				if err != nil {
					r.undecided("geometry "+f, c.Pos(e), "cannot evaluate "+c.Src(e)+": "+err.Error())
					return
				}
				if !pred(size, v) {
					r.fail("geometry "+f, c.Pos(e), fmt.Sprintf("intMap.init sets %s = %s, which is %d for size %d: %s", f, c.Src(e), v, size, msg))
					return
				}
			}
			r.ok("geometry "+f, want)
		}
		geomOK("mask", func(s, v int64) bool { return v == s-1 }, "mask = size-1", "`& mask` is no longer `mod size`, so probes skip or repeat slots")
		geomOK("size", func(s, v int64) bool { return v == s }, "size recorded", "the recorded size disagrees with the slot array")
		geomOK("max", func(s, v int64) bool { return v >= 1 && v < s-1 }, "max < size-1", "the table can fill completely (growth happens only when total > max), and a lookup of an absent key then never reaches an empty slot")
		geomOK("min", func(s, v int64) bool { return v >= 0 && 2*v < s*3/4 }, "min well below max/2... of the halved table", "shrinking at this threshold produces a table that is immediately over its own growth threshold")
		if e := assigned["pairs"]; e != nil {
			call, ok := unparen(e).(*ast.CallExpr)
			good := ok && c.CalleeName(call) == "builtin.make" && len(call.Args) == 2 && isIdent(call.Args[1], sizeParam)
			r.check(good, "geometry pairs", c.Pos(e), "make([]intMapPair, size)", "intMap.init does not allocate exactly `size` fresh (all empty) slots")
		} else {
			r.fail("geometry pairs", c.Pos(fd), "intMap.init does not allocate the slot array")
		}
	} else {
		r.undecided("geometry", "-", "intMap.init not found")
	}
	// sizes: powers of two only
	if v, ok := c.constByName("intMapMin"); ok {
		r.check(v >= 2 && v&(v-1) == 0, "size intMapMin", "-", fmt.Sprintf("intMapMin = %d is a power of two", v), fmt.Sprintf("intMapMin = %d is not a power of two: `& mask` is not `mod size`", v))
	} else {
		r.undecided("size intMapMin", "-", "constant not found")
	}
	for _, fd := range fds {
		ast.Inspect(fd.Body, func(n ast.Node) bool {
			call, ok := n.(*ast.CallExpr)
			if !ok || len(call.Args) == 0 {
				return true
			}
			switch c.CalleeName(call) {
			case "intMap.resize":
				a := unparen(call.Args[0])
				good := false
				if be, ok := a.(*ast.BinaryExpr); ok && (be.Op == token.SHL || be.Op == token.SHR) && c.isIntMapField(be.X, "size") {
					if k, ok := c.ConstInt(be.Y); ok && k >= 1 {
						good = true
					}
				}
				if be, ok := a.(*ast.BinaryExpr); ok && (be.Op == token.MUL || be.Op == token.QUO) && c.isIntMapField(be.X, "size") {
					if k, ok := c.ConstInt(be.Y); ok && k >= 2 && k&(k-1) == 0 {
						good = true
					}
				}
				r.check(good, "size resize@"+fd.Name.Name, c.Pos(call), "resize to size shifted by a constant", "resize is asked for "+c.Src(a)+", which need not be a power of two: `& mask` is then not `mod size` and slots become unreachable")
			}
			return true
		})
	}
	if fd := c.Func("newIntMap"); fd != nil {
		// the size variable handed to init: starts at intMapMin and is only doubled
		good, n := true, 0
		var sizeObj types.Object
		ast.Inspect(fd.Body, func(nd ast.Node) bool {
			if call, ok := nd.(*ast.CallExpr); ok && c.CalleeName(call) == "intMap.init" && len(call.Args) > 0 {
				if id, ok := unparen(call.Args[0]).(*ast.Ident); ok {
					sizeObj = c.Obj(id)
				}
			}
			return true
		})
		if sizeObj == nil {
			r.undecided("size newIntMap", c.Pos(fd), "the size handed to init is not a variable")
		} else {
			ast.Inspect(fd.Body, func(nd ast.Node) bool {
				switch a := nd.(type) {
				case *ast.AssignStmt:
					for i, l := range a.Lhs {
						id, ok := unparen(l).(*ast.Ident)
						if !ok || c.Obj(id) != sizeObj {
							continue
						}
						n++
						switch a.Tok {
						case token.DEFINE, token.ASSIGN:
							if len(a.Rhs) != len(a.Lhs) {
								good = false
								continue
							}
							rhs := unparen(a.Rhs[i])
							if idr, ok := rhs.(*ast.Ident); ok && idr.Name == "intMapMin" {
								continue
							}
							if be, ok := rhs.(*ast.BinaryExpr); ok && (be.Op == token.SHL || be.Op == token.MUL) {
								if idl, ok := unparen(be.X).(*ast.Ident); ok && c.Obj(idl) == sizeObj {
									if k, ok := c.ConstInt(be.Y); ok && (be.Op == token.SHL && k >= 1 || be.Op == token.MUL && k >= 2 && k&(k-1) == 0) {
										continue
									}
								}
							}
							good = false
						case token.SHL_ASSIGN:
							if k, ok := c.ConstInt(a.Rhs[0]); !ok || k < 1 {
								good = false
							}
						case token.MUL_ASSIGN:
							if k, ok := c.ConstInt(a.Rhs[0]); !ok || k < 2 || k&(k-1) != 0 {
								good = false
							}
						default:
							good = false
						}
					}
				case *ast.IncDecStmt:
					if id, ok := unparen(a.X).(*ast.Ident); ok && c.Obj(id) == sizeObj {
						good = false
					}
				}
				return true
			})
			r.check(good && n >= 1, "size newIntMap", c.Pos(fd), "size starts at intMapMin and is only doubled", "newIntMap can produce a table size that is not a power of two: `& mask` is then not `mod size`")
		}
	} else {
		r.undecided("size newIntMap", "-", "newIntMap not found")
	}
	// resize clamps from below and re-inserts every live entry at its own hash
	if fd := c.Func("intMap.resize"); fd != nil {
		reinserts := false
		for _, h := range c.withHelpers(fd) {
			ast.Inspect(h.Body, func(n ast.Node) bool {
				rs, ok := n.(*ast.RangeStmt)
				if !ok {
					return true
				}
				ast.Inspect(rs.Body, func(k ast.Node) bool {
					if call, ok := k.(*ast.CallExpr); ok {
						switch c.CalleeName(call) {
						case "intMap.insert":
							if len(call.Args) == 3 {
								// the start slot is the hash of the key being re-inserted
								a0 := nosp(c.Src(call.Args[0]))
								k1 := nosp(c.Src(call.Args[1]))
								if strings.HasPrefix(a0, "intMapHash(") && strings.Contains(a0, k1) {
									reinserts = true
								} else if id, ok := unparen(call.Args[0]).(*ast.Ident); ok {
									// hash := intMapHash(pair.key)
									if def := c.singleDef(id); def != nil && strings.HasPrefix(nosp(c.Src(def)), "intMapHash("+k1) {
										reinserts = true
									}
								}
							}
						case "intMap.Set":
							reinserts = true
						}
					}
					return true
				})
				return true
			})
		}
		r.check(reinserts, "resize rehash", c.Pos(fd), "every live entry is re-inserted starting at the hash of its own key", "intMap.resize does not re-insert each live entry at the hash of its own key: after growth fields are looked up in the wrong place")
	} else {
		r.undecided("resize rehash", "-", "intMap.resize not found")
	}
	// ---- P4: growth: an insertion that makes total exceed max grows the table ----
	if fd := c.Func("intMap.Set"); fd != nil {
		grows := false
		for _, h := range c.withHelpers(fd) {
			ast.Inspect(h.Body, func(n ast.Node) bool {
				ifs, ok := n.(*ast.IfStmt)
				if !ok {
					return true
				}
				be, ok := unparen(ifs.Cond).(*ast.BinaryExpr)
				if !ok {
					return true
				}
				condOK := (be.Op == token.GTR || be.Op == token.GEQ) && c.isIntMapField(be.X, "total") && c.isIntMapField(be.Y, "max") ||
					(be.Op == token.LSS || be.Op == token.LEQ) && c.isIntMapField(be.Y, "total") && c.isIntMapField(be.X, "max")
				if !condOK {
					return true
				}
				ast.Inspect(ifs.Body, func(k ast.Node) bool {
					if call, ok := k.(*ast.CallExpr); ok && c.CalleeName(call) == "intMap.resize" && len(call.Args) == 1 {
						if b2, ok := unparen(call.Args[0]).(*ast.BinaryExpr); ok && (b2.Op == token.SHL || b2.Op == token.MUL) {
							grows = true
						}
					}
					return true
				})
				return true
			})
		}
		r.check(grows, "growth", c.Pos(fd), "Set grows the table when total exceeds max", "intMap.Set no longer grows the table when total exceeds max: a struct type with many fields/methods fills the table and the next lookup of an absent key never terminates")
		// counting: total changes by exactly one per inserted key
		inc := 0
		for _, h := range c.withHelpers(fd) {
			ast.Inspect(h.Body, func(n ast.Node) bool {
				if x, ok := n.(*ast.IncDecStmt); ok && x.Tok == token.INC && c.isIntMapField(x.X, "total") {
					inc++
				}
				return true
			})
		}
		r.check(inc == 1, "count Set", c.Pos(fd), "total++ once, on the insertion path", fmt.Sprintf("intMap.Set increments total %d times (expected once, on the insertion path): the growth threshold is reached too late or never", inc))
	} else {
		r.undecided("growth", "-", "intMap.Set not found")
	}
	ruleIntMapDelete(c, r)
	// ---- P5: emptiness protocol: distance 0 = empty; stored entries have distance >= 1 ----
	if fd := c.Func("intMap.insert"); fd != nil {
		okDist, found := true, false
		for _, h := range c.withHelpers(fd) {
			ast.Inspect(h.Body, func(n ast.Node) bool {
				cl, ok := n.(*ast.CompositeLit)
				if !ok || !isNamed(c.TypeOf(cl), "intMapPair") {
					return true
				}
				for _, el := range cl.Elts {
					if kv, ok := el.(*ast.KeyValueExpr); ok && isIdent(kv.Key, "distance") {
						found = true
						if v, ok := c.ConstInt(kv.Value); !ok || v != 1 {
							okDist = false
						}
					}
				}
				return true
			})
		}
		r.check(found && okDist, "distance insert", c.Pos(fd), "a stored entry starts with distance 1", "intMap.insert creates the new entry with a distance other than 1: distance 0 marks an empty slot (the entry is invisible), and other values break the displacement order and Delete's back-shift")
	} else {
		r.undecided("distance insert", "-", "intMap.insert not found")
	}
	for _, fn := range []string{"intMap.Get", "intMap.Assign", "intMap.Set", "intMap.Delete"} {
		fd := c.Func(fn)
		if fd == nil {
			r.undecided("empty "+fn, "-", "not found")
			continue
		}
		stops := false
		for _, h := range c.withHelpers(fd) {
			ast.Inspect(h.Body, func(n ast.Node) bool {
				be, ok := n.(*ast.BinaryExpr)
				if !ok || be.Op != token.EQL {
					return true
				}
				if sel, ok := unparen(be.X).(*ast.SelectorExpr); ok && sel.Sel.Name == "distance" {
					if v, ok := c.ConstInt(be.Y); ok && v == 0 {
						stops = true
					}
				}
				return true
			})
		}
		r.check(stops, "empty "+fn, c.Pos(fd), "the probe stops at a slot with distance == 0", fn+" does not stop its probe at an empty slot (distance == 0): a lookup of an absent key never ends or matches a stale slot")
		// any other way to give up the probe is the robin-hood cut-off, and that one is strict:
		// insert displaces a resident only when resident.distance < probe distance, so residents at
		// the *same* distance stay ahead of the key — "resident.distance < d" (d = 1 at the home
		// slot, +1 per step) proves the key absent, "<= d" does not
		for _, h := range c.withHelpers(fd) {
			ast.Inspect(h.Body, func(n ast.Node) bool {
				ifs, ok := n.(*ast.IfStmt)
				if !ok || len(ifs.Body.List) == 0 {
					return true
				}
				switch last := ifs.Body.List[len(ifs.Body.List)-1].(type) {
				case *ast.ReturnStmt:
				case *ast.BranchStmt:
					if last.Tok != token.BREAK {
						return true
					}
				default:
					return true
				}
				for _, cj := range conjuncts(ifs.Cond) {
					be, ok := unparen(cj).(*ast.BinaryExpr)
					if !ok {
						continue
					}
					isDist := func(e ast.Expr) bool {
						sel, ok := unparen(e).(*ast.SelectorExpr)
						return ok && sel.Sel.Name == "distance"
					}
					var other ast.Expr
					strict := false
					switch {
					case isDist(be.X) && (be.Op == token.LSS || be.Op == token.LEQ || be.Op == token.GTR || be.Op == token.GEQ):
						other, strict = be.Y, be.Op == token.LSS
					case isDist(be.Y) && (be.Op == token.LSS || be.Op == token.LEQ || be.Op == token.GTR || be.Op == token.GEQ):
						other, strict = be.X, be.Op == token.GTR
					default:
						continue
					}
					if isDist(other) {
						continue // comparing two residents (Delete's back-shift) is not a probe cut-off
					}
					if _, isConst := c.ConstInt(other); isConst {
						continue // distance <= 1: "empty or at its home slot", the stop of the back-shift
					}
					// the other side: a counter that is 1 at the home slot and steps by one
					counts := false
					if id, ok := unparen(other).(*ast.Ident); ok {
						for p := c.Parent(ifs); p != nil; p = c.Parent(p) {
							f, ok := p.(*ast.ForStmt)
							if !ok {
								continue
							}
							if as, ok := f.Init.(*ast.AssignStmt); ok && len(as.Lhs) == 1 && len(as.Rhs) == 1 {
								if lid, ok := as.Lhs[0].(*ast.Ident); ok && c.Obj(lid) == c.Obj(id) {
									if v, ok := c.ConstInt(as.Rhs[0]); ok && v == 1 {
										if inc, ok := f.Post.(*ast.IncDecStmt); ok && inc.Tok == token.INC {
											if pid, ok := unparen(inc.X).(*ast.Ident); ok && c.Obj(pid) == c.Obj(id) {
												counts = true
											}
										}
									}
								}
							}
							break
						}
					}
					r.check(strict && counts, "probe cut-off "+fn, c.Pos(ifs), "the probe is given up only below the probe distance (strict)",
						fn+" gives up its probe on `"+c.Src(cj)+"`: a resident at the same distance as the probe does not prove the key absent (insert keeps ties in place) — a field that shares its home slot with another field of the struct is treated as missing: `b.w = 3` is silently dropped and reads keep the zero value")
				}
				return true
			})
		}
	}
}

// ruleIntMapDelete (part of REP-INTMAP): Delete closes the gap by shifting the following
// entries back one slot until an empty slot or an entry already at its home slot.
func ruleIntMapDelete(c *Ctx, r *R) {
	fd := c.Func("intMap.Delete")
	if fd == nil {
		r.undecided("delete", "-", "intMap.Delete not found")
		return
	}
	clears, decTotal, decDist, stop, moves := 0, 0, 0, false, false
	for _, h := range c.withHelpers(fd) {
		ast.Inspect(h.Body, func(n ast.Node) bool {
			switch x := n.(type) {
			case *ast.AssignStmt:
				for i, l := range x.Lhs {
					if sel, ok := unparen(l).(*ast.SelectorExpr); ok && sel.Sel.Name == "distance" && len(x.Rhs) == len(x.Lhs) && x.Tok == token.ASSIGN {
						if v, ok := c.ConstInt(x.Rhs[i]); ok && v == 0 {
							clears++
						}
					}
					if ix, ok := unparen(l).(*ast.IndexExpr); ok && c.isIntMapField(ix.X, "pairs") && len(x.Rhs) == len(x.Lhs) {
						if rx, ok := unparen(x.Rhs[i]).(*ast.IndexExpr); ok && c.isIntMapField(rx.X, "pairs") {
							moves = true
						}
					}
					if sel, ok := unparen(l).(*ast.SelectorExpr); ok && x.Tok == token.SUB_ASSIGN {
						if v, isC := c.ConstInt(x.Rhs[0]); isC && v == 1 {
							switch sel.Sel.Name {
							case "distance":
								decDist++
							case "total":
								decTotal++
							}
						}
					}
				}
			case *ast.IncDecStmt:
				if sel, ok := unparen(x.X).(*ast.SelectorExpr); ok && x.Tok == token.DEC {
					switch sel.Sel.Name {
					case "distance":
						decDist++
					case "total":
						decTotal++
					}
				}
			case *ast.BinaryExpr:
				if sel, ok := unparen(x.X).(*ast.SelectorExpr); ok && sel.Sel.Name == "distance" {
					if v, isC := c.ConstInt(x.Y); isC && (x.Op == token.LEQ && v == 1 || x.Op == token.LSS && v == 2) {
						stop = true
					}
				}
			}
			return true
		})
	}
	r.check(stop, "delete stop", c.Pos(fd), "the back-shift stops at distance <= 1", "intMap.Delete's back-shift does not stop at the first slot that is empty or holds an entry at its home slot (distance <= 1): an entry is moved in front of its home slot, where no lookup finds it")
	r.check(moves && decDist == 1, "delete shift", c.Pos(fd), "following entries move back one slot and lose one unit of distance", "intMap.Delete does not move the following entries back by one slot with distance-1: a gap (or a wrong distance) is left inside a probe run, and entries behind it are no longer found")
	r.check(clears == 1, "delete clear", c.Pos(fd), "the last vacated slot is marked empty", "intMap.Delete does not mark the finally vacated slot empty (distance = 0) exactly once: the deleted field/method stays visible, or a live one is hidden")
	r.check(decTotal == 1, "delete count", c.Pos(fd), "total-- once", fmt.Sprintf("intMap.Delete decrements total %d times: the growth threshold drifts", decTotal))
}

// checkReturns: every return of fd yields (first result) a reduced index or a negative constant.
func (m *maskFlow) checkReturns(fd *ast.FuncDecl, okAll *bool, n *int) {
	// run the flow with a return visitor: reuse stmt(), intercepting ReturnStmt through a wrapper
	var walk func(list []ast.Stmt, s mstate) mstate
	_ = walk
	rets := collectReturnsWithState(m, fd)
	for _, rs := range rets {
		*n++
		if len(rs.ret.Results) == 0 {
			*okAll = false
			continue
		}
		e := rs.ret.Results[0]
		if v, ok := m.c.ConstInt(e); ok && v < 0 {
			continue
		}
		if !m.reduced(e, rs.st) {
			*okAll = false
		}
	}
}

type retWithState struct {
	ret *ast.ReturnStmt
	st  mstate
}

// collectReturnsWithState re-runs the flow and snapshots the state at each return.
func collectReturnsWithState(m *maskFlow, fd *ast.FuncDecl) []retWithState {
	var out []retWithState
	sub := &maskFlowRet{maskFlow: m, out: &out}
	sub.run(fd)
	return out
}

// maskFlowRet wraps maskFlow to observe returns: it walks the body statement by statement
// using the same transfer functions, descending into compound statements itself.
type maskFlowRet struct {
	*maskFlow
	out *[]retWithState
}

func (w *maskFlowRet) run(fd *ast.FuncDecl) {
	// A light approximation that is sound for the purpose (a helper is only *trusted* when
	// every return is reduced): take, for each return statement, the loop-head fixpoint
	// state of its innermost enclosing loop as computed by a fresh flow, by instrumenting
	// visitExpr on the return's result expression.
	probe := &maskFlow{c: w.c, r: w.r, fn: w.fn, helpers: w.helpers, bad: map[string]string{}}
	states := map[*ast.ReturnStmt]mstate{}
	probe.onReturn = func(rs *ast.ReturnStmt, s mstate) {
		if prev, ok := states[rs]; ok {
			states[rs] = meet(prev, s)
		} else {
			states[rs] = s.clone()
		}
	}
	probe.block(fd.Body.List, mstate{})
	ast.Inspect(fd.Body, func(n ast.Node) bool {
		if _, ok := n.(*ast.FuncLit); ok {
			return false
		}
		if rs, ok := n.(*ast.ReturnStmt); ok {
			st := states[rs]
			if st == nil {
				st = mstate{}
			}
			*w.out = append(*w.out, retWithState{rs, st})
		}
		return true
	})
}

// constByName: the integer value of a package-level constant.
func (c *Ctx) constByName(name string) (int64, bool) {
	o := c.Pkg.Types.Scope().Lookup(name)
	k, ok := o.(*types.Const)
	if !ok {
		return 0, false
	}
	return constant.Int64Val(k.Val())
}

// singleDef: the right-hand side of the only assignment/definition of a local identifier.
func (c *Ctx) singleDef(id *ast.Ident) ast.Expr {
	o := c.Obj(id)
	fd := c.EnclosingFunc(id)
	if o == nil || fd == nil {
		return nil
	}
	var def ast.Expr
	n := 0
	ast.Inspect(fd.Body, func(nd ast.Node) bool {
		as, ok := nd.(*ast.AssignStmt)
		if !ok {
			return true
		}
		for i, l := range as.Lhs {
			if li, ok := unparen(l).(*ast.Ident); ok && c.Obj(li) == o {
				n++
				if len(as.Rhs) == len(as.Lhs) {
					def = as.Rhs[i]
				}
			}
		}
		return true
	})
	if n != 1 {
		return nil
	}
	return def
}

// REP-DEFTYPE: a type name resolves to a struct type only after the compiler has
// established that the global it names is not a defined-type alias (`type B A`,
// `type N float64`, stored as a typeType value); for an alias the aliased type is used.
// Otherwise instances of / fields typed with a defined type get the wrong type.
func ruleRepDefType(c *Ctx, r *R) {
	fd := c.Func("typeFromToken")
	if fd == nil {
		r.undecided("typeFromToken", "-", "not found")
		return
	}
	ps := c.pathsOf("typeFromToken", func(in *Interp) {
		in.NoReturn = func(o types.Object) bool { return o.Name() == "panicf" }
	})
	nStruct, nAlias := 0, 0
	for _, p := range ps {
		if p.Done != "return" || len(p.Ret) != 1 {
			continue
		}
		var st *T
		walkT(p.Ret[0], func(x *T) {
			if x.Op == "call" && x.Name == "structType" && len(x.Args) == 1 {
				st = x
			}
		})
		cs := condStrings(p)
		if st != nil {
			nStruct++
			idx := stripIntConv(st.Args[0])
			for idx.Op == "conv" && len(idx.Args) == 1 {
				idx = idx.Args[0]
			}
			is := idx.String()
			good := false
			for _, cd := range p.Conds {
				s := cd.String()
				if strings.Contains(s, "lookup.Read(") && strings.Contains(s, is) && strings.Contains(s, ".t != typeType") {
					good = true
				}
			}
			r.check(good, "struct-type "+fmt.Sprint(nStruct), c.Pos(fd), "structType(idx) only under Globals.Read(idx).t != typeType",
				"typeFromToken yields structType("+is+") on a path that has not established that the named global is not a defined-type alias (path: "+cs+"): a type defined from another (`type B A`, `type N float64`), e.g. one named through a package qualifier, is instantiated as an empty struct type — no fields, no methods, wrong zero values")
			continue
		}
		if strings.Contains(cs, ".t == typeType") {
			rs := p.Ret[0].String()
			nAlias++
			r.check(strings.Contains(rs, "Value.Int(lookup.Read("), "alias-type", c.Pos(fd), "an alias resolves to the type it stores",
				"typeFromToken does not resolve a defined-type alias to the type value it stores (returns "+rs+")")
		}
	}
	if nStruct == 0 || nAlias == 0 {
		r.undecided("typeFromToken", c.Pos(fd), fmt.Sprintf("expected a struct-type path and an alias path (found %d, %d)", nStruct, nAlias))
	}
	// methods on a type defined from a struct type go to that struct's method table:
	// compile("method") looks through the alias before it emits the receiver's GLOBALGET
	cs, err := c.compileSwitch()
	if err != nil {
		r.undecided("method receiver", "-", err.Error())
		return
	}
	if sc := cs.ByLabel["method"]; sc != nil {
		m := newLayMachine(c)
		cl, err := m.runCase(cs, "method")
		if err != nil {
			r.undecided("method receiver", c.Pos(sc.Clause), err.Error())
			return
		}
		looks := false
		for _, p := range cl.Paths {
			if strings.Contains(condStrings(p.St), ".t == typeType") {
				looks = true
			}
		}
		r.check(looks, "method receiver", c.Pos(sc.Clause), "the receiver type is looked through when it is a defined-type alias", "compile(\"method\") attaches the method to whatever global the receiver name denotes: for `type B T; func (b *B) G()` that global is a type alias, not a struct type, and SETMETHOD aborts the load (interface conversion: Object is nil, not *structT)")
	} else {
		r.undecided("method receiver", "-", "no compile-case for method")
	}
}

// REP-DEFCONV: in compile("call") a callee that compiles to a single GLOBALGET of a
// defined-type alias is a conversion, however the type is named (plain or through its
// package): the CONVERT path must not be conditioned on the callee token's spelling.
func ruleRepDefConv(c *Ctx, r *R) {
	cs, err := c.compileSwitch()
	if err != nil {
		r.undecided("compile", "-", err.Error())
		return
	}
	sc := cs.ByLabel["call"]
	if sc == nil {
		r.undecided("call", "-", "no compile-case")
		return
	}
	m := newLayMachine(c)
	cl, err := m.runCase(cs, "call")
	if err != nil {
		r.undecided("call", c.Pos(sc.Clause), err.Error())
		return
	}
	n := 0
	for _, p := range cl.Paths {
		conv := false
		for _, a := range p.Atoms {
			if a.Ins == nil {
				continue
			}
			code := litField(a.Ins, "Code")
			av := litField(a.Ins, "A")
			if code != nil && code.String() == "codeConvert" && av != nil && strings.Contains(av.String(), "lookup.Read(") {
				conv = true
			}
		}
		if !conv {
			continue
		}
		n++
		cs := condStrings(p.St)
		bad := ""
		for _, cd := range p.St.Conds {
			s := cd.String()
			if strings.Contains(s, ".Symbol ==") && !strings.HasPrefix(s, "!") && !strings.Contains(s, "anyof") {
				bad = s
			}
		}
		r.check(bad == "", fmt.Sprintf("defined-type conversion %d", n), c.Pos(sc.Clause), "the conversion path depends only on what the callee compiled to",
			"compile(\"call\") recognises a conversion to a defined type only when the callee token is spelled a particular way ("+bad+"): the same type named through its package (units.Celsius(x)) is compiled as a call of the type value and fails at run time (path: "+cs+")")
	}
	if n == 0 {
		r.undecided("defined-type conversion", c.Pos(sc.Clause), "no path of compile(\"call\") emits CONVERT with the type stored in the named global")
	}
}

// PAR-GLOBALIDX: the A operand of a compiled instruction is used as an index into the
// globals table only after the instruction was seen to be a GLOBALGET — for a LOCALGET
// the same number is a stack slot, and reading global #slot confuses a local function
// variable with whatever global happens to have that index.
var globalIdxExempt = map[string]string{
	"make": "type position: make(T, n) with T a local variable is not a valid program, and a non-type global makes Type(val.Int()) fail the switch",
}

func ruleParGlobalIdx(c *Ctx, r *R) {
	cs, err := c.compileSwitch()
	if err != nil {
		r.undecided("compile", "-", err.Error())
		return
	}
	n := 0
	var fds []*ast.FuncDecl
	for _, name := range c.FuncNames() {
		fd := c.Func(name)
		if fd.Body != nil && strings.HasSuffix(c.Fset.Position(fd.Pos()).Filename, "compiler.go") {
			fds = append(fds, fd)
		}
	}
	for _, fd := range fds {
		ast.Inspect(fd.Body, func(nd ast.Node) bool {
			call, ok := nd.(*ast.CallExpr)
			if !ok || c.CalleeName(call) != "lookup.Read" || len(call.Args) != 1 {
				return true
			}
			// receiver is the compiler's Globals
			if sel, ok := unparen(call.Fun).(*ast.SelectorExpr); !ok || !strings.HasSuffix(nosp(c.Src(sel.X)), ".Globals") {
				return true
			}
			arg := unparen(call.Args[0])
			for {
				if cv, ok := arg.(*ast.CallExpr); ok && len(cv.Args) == 1 {
					if _, isConv := c.IsConversion(cv); isConv {
						arg = unparen(cv.Args[0])
						continue
					}
				}
				break
			}
			sel, ok := arg.(*ast.SelectorExpr)
			if !ok || sel.Sel.Name != "A" || !isNamed(c.TypeOf(sel.X), "instruction") {
				return true
			}
			n++
			ins := nosp(c.Src(sel.X))
			label := ""
			for p := c.Parent(call); p != nil; p = c.Parent(p) {
				if cc, ok := p.(*ast.CaseClause); ok {
					for _, sc := range cs.Cases {
						if sc.Clause == cc && len(sc.Labels) > 0 {
							label = sc.Labels[0]
						}
					}
				}
			}
			key := fd.Name.Name + " " + nosp(c.Src(call))
			if label != "" {
				key = "compile(" + label + ") " + nosp(c.Src(call))
			}
			if label == "" {
				// a new helper inherits the compile-case(s) it is called from
				if ho := c.Info.Defs[fd.Name]; ho != nil && c.isNewHelper(ho) {
					labels := map[string]bool{}
					// (transitively: a helper of a helper of the case)
					var collect func(target types.Object, depth int)
					collect = func(target types.Object, depth int) {
						if depth > 3 {
							return
						}
						for _, f := range c.Pkg.Syntax {
							ast.Inspect(f, func(k ast.Node) bool {
								hc, ok := k.(*ast.CallExpr)
								if !ok || c.Callee(hc) != target {
									return true
								}
								encl := c.EnclosingFunc(hc)
								if encl == nil {
									return true
								}
								if encl == cs.Fn {
									for p := c.Parent(hc); p != nil; p = c.Parent(p) {
										if cc, ok := p.(*ast.CaseClause); ok {
											for _, sc := range cs.Cases {
												if sc.Clause == cc && len(sc.Labels) > 0 {
													labels[sc.Labels[0]] = true
												}
											}
										}
									}
								} else if eo := c.Info.Defs[encl.Name]; eo != nil && c.isNewHelper(eo) {
									collect(eo, depth+1)
								} else {
									labels["?"+encl.Name.Name] = true
								}
								return true
							})
						}
					}
					collect(ho, 0)
					if len(labels) == 1 {
						for l := range labels {
							label = l
						}
					}
				}
			}
			if why, ok := globalIdxExempt[label]; ok {
				r.ok(key, "exempt: "+why)
				return true
			}
			guarded := false
			want := ins + ".Code==codeGlobalGet"
			wantNeg := ins + ".Code!=codeGlobalGet"
			var child ast.Node = call
			for p := c.Parent(call); p != nil && p != ast.Node(fd); child, p = p, c.Parent(p) {
				switch x := p.(type) {
				case *ast.IfStmt:
					if child == ast.Node(x.Body) && hasConjunct(c, x.Cond, want) {
						guarded = true
					}
					if x.Else != nil && child == ast.Node(x.Else) && nosp(c.Src(x.Cond)) == wantNeg {
						guarded = true
					}
				case *ast.BlockStmt:
					// a guard clause before the site: if X.Code != codeGlobalGet { panicf / return }
					for _, s := range x.List {
						if ast.Node(s) == child {
							break
						}
						if ifs, ok := s.(*ast.IfStmt); ok && ifs.Else == nil && nosp(c.Src(ifs.Cond)) == wantNeg && len(ifs.Body.List) > 0 {
							switch last := ifs.Body.List[len(ifs.Body.List)-1].(type) {
							case *ast.ReturnStmt, *ast.BranchStmt:
								guarded = true
							case *ast.ExprStmt:
								if cl, ok := last.X.(*ast.CallExpr); ok {
									if nm := c.CalleeName(cl); nm == "panicf" || nm == "builtin.panic" {
										guarded = true
									}
								}
							}
						}
					}
				}
			}
			r.check(guarded, key, c.Pos(call), "under "+ins+".Code == codeGlobalGet",
				"the A operand of "+ins+" is used as a globals index without first establishing that the instruction is a GLOBALGET: when the name is a local (a function-typed variable, LOCALGET slot k) the compiler reads global #k, and if that happens to be a defined type the call f(x) is silently compiled as a conversion")
			return true
		})
	}
	if n < 3 {
		r.undecided("globals-index", "-", fmt.Sprintf("only %d Globals.Read(ins.A) sites found (expected at least 3)", n))
	}
}

func hasConjunct(c *Ctx, e ast.Expr, want string) bool {
	e = unparen(e)
	if be, ok := e.(*ast.BinaryExpr); ok && be.Op == token.LAND {
		return hasConjunct(c, be.X, want) || hasConjunct(c, be.Y, want)
	}
	s := nosp(c.Src(e))
	if s == want {
		return true
	}
	// flipped spelling
	if be, ok := e.(*ast.BinaryExpr); ok && be.Op == token.EQL {
		return nosp(c.Src(be.Y))+"=="+nosp(c.Src(be.X)) == want
	}
	return false
}

// LIT-CONSTKEY: a literal that is stored in the constant table is keyed by its own
// spelling: compile(kind) calls Globals.Set(K, V) and emits CONST Globals.Index(K) with
// the same K, and K is the token's text (possibly with constant prefixes/suffixes, which
// keeps the key an injective function of the spelling).  V is a function of the spelling,
// so two literals can share a slot only if they are the same literal.
func ruleLitConstKey(c *Ctx, r *R) {
	cs, err := c.compileSwitch()
	if err != nil {
		r.undecided("compile", "-", err.Error())
		return
	}
	injective := func(k *T) bool {
		var ok func(t *T) bool
		seenText := 0
		ok = func(t *T) bool {
			switch {
			case t.Op == "str":
				return true
			case t.String() == "tok.Text":
				seenText++
				return true
			case t.Op == "bin" && t.Name == "+" && len(t.Args) == 2:
				return ok(t.Args[0]) && ok(t.Args[1])
			}
			return false
		}
		return ok(k) && seenText == 1
	}
	n := 0
	for _, sc := range cs.Cases {
		usesSet := false
		ast.Inspect(sc.Clause, func(nd ast.Node) bool {
			if call, ok := nd.(*ast.CallExpr); ok && c.CalleeName(call) == "lookup.Set" {
				usesSet = true
			}
			return true
		})
		if !usesSet || len(sc.Labels) == 0 || !strings.HasPrefix(sc.Labels[0], "(") {
			continue
		}
		label := sc.Labels[0]
		m := newLayMachine(c)
		cl, err := m.runCase(cs, label)
		if err != nil {
			r.undecided("key "+label, c.Pos(sc.Clause), err.Error())
			continue
		}
		for pi, p := range cl.Paths {
			var setK *T
			for _, e := range p.St.Eff {
				if e.Kind == "call" && e.Value != nil && e.Value.Name == "lookup.Set" && len(e.Value.Args) >= 2 {
					setK = e.Value.Args[len(e.Value.Args)-2]
				}
			}
			var idxK *T
			for _, a := range p.Atoms {
				if a.Ins == nil {
					continue
				}
				if av := litField(a.Ins, "A"); av != nil {
					walkT(av, func(x *T) {
						if x.Op == "call" && x.Name == "lookup.Index" && len(x.Args) >= 1 {
							idxK = x.Args[len(x.Args)-1]
						}
					})
				}
			}
			if setK == nil && idxK == nil {
				continue
			}
			n++
			key := fmt.Sprintf("key %s path %d", label, pi)
			switch {
			case setK == nil || idxK == nil:
				r.fail(key, c.Pos(sc.Clause), "compile("+label+") stores the literal and refers to it on different paths (Set without Index or the reverse)")
			case !setK.Eq(idxK):
				r.fail(key, c.Pos(sc.Clause), "compile("+label+") stores the literal's value under "+setK.String()+" but emits CONST for "+idxK.String()+": the instruction loads a different constant")
			case !injective(setK):
				r.fail(key, c.Pos(sc.Clause), "compile("+label+") keys the literal's constant slot by "+setK.String()+", which is not the token's own spelling: two different literals (e.g. the raw string `\\n` and the interpreted string \"\\n\") map to one slot, and the one compiled later overwrites the value the earlier one loads")
			default:
				r.ok(key, "keyed by the token's spelling")
			}
		}
	}
	if n < 2 {
		r.undecided("key", "-", fmt.Sprintf("only %d literal kinds stored in the constant table found (expected float and string)", n))
	}
}

// REP-ORDER: the declaration-order list of a struct type (structT.Order) is shared, as a
// slice header, by every instance created so far.  It may therefore only grow by
// append (which leaves the prefix every instance sees untouched); it is never truncated,
// re-sliced or stored into; and whatever appends to it does so in a deterministic order
// (never from inside a range over a map).
func ruleRepOrder(c *Ctx, r *R) {
	isOrder := func(e ast.Expr) bool {
		sel, ok := unparen(e).(*ast.SelectorExpr)
		if !ok || sel.Sel.Name != "Order" {
			return false
		}
		t := c.TypeOf(sel.X)
		if t == nil {
			return false
		}
		if p, ok := t.Underlying().(*types.Pointer); ok {
			t = p.Elem()
		}
		return isNamed(t, "structT")
	}
	writes, appends := 0, 0
	appenders := map[types.Object]bool{} // functions that append to Order
	for _, name := range c.FuncNames() {
		fd := c.Func(name)
		if fd.Body == nil {
			continue
		}
		ast.Inspect(fd.Body, func(n ast.Node) bool {
			switch x := n.(type) {
			case *ast.AssignStmt:
				for i, l := range x.Lhs {
					if ix, ok := unparen(l).(*ast.IndexExpr); ok && isOrder(ix.X) {
						writes++
						r.fail("order store "+name, c.Pos(x), name+" stores into an element of a struct type's Order list: the list is shared by all existing instances, so their printed field names change")
					}
					if !isOrder(l) {
						continue
					}
					writes++
					good := false
					if len(x.Rhs) == len(x.Lhs) {
						if call, ok := unparen(x.Rhs[i]).(*ast.CallExpr); ok && c.CalleeName(call) == "builtin.append" && len(call.Args) >= 1 && isOrder(call.Args[0]) && nosp(c.Src(call.Args[0])) == nosp(c.Src(l)) {
							good = true
							appends++
							if o := c.Info.Defs[fd.Name]; o != nil {
								appenders[o] = true
							}
						}
					}
					if !good {
						r.fail("order write "+name, c.Pos(x), name+" assigns a struct type's Order list something other than append(<the same list>, ...): truncating or rebuilding it in place rewrites the backing array that every existing instance still reads, so values created earlier print the wrong field names")
					}
				}
			}
			return true
		})
	}
	r.check(appends >= 1, "order append", "-", fmt.Sprintf("%d append site(s), %d writes in all", appends, writes), "no function appends to structT.Order: new fields are never listed when a struct prints")
	// transitive appenders
	for round := 0; round < 4; round++ {
		for _, name := range c.FuncNames() {
			fd := c.Func(name)
			o := c.Info.Defs[fd.Name]
			if fd.Body == nil || o == nil || appenders[o] {
				continue
			}
			ast.Inspect(fd.Body, func(n ast.Node) bool {
				if call, ok := n.(*ast.CallExpr); ok {
					if cal := c.Callee(call); cal != nil && appenders[cal] {
						appenders[o] = true
					}
				}
				return true
			})
		}
	}
	// no append from inside a range over a map
	nLoops := 0
	for _, name := range c.FuncNames() {
		fd := c.Func(name)
		if fd.Body == nil {
			continue
		}
		ast.Inspect(fd.Body, func(n ast.Node) bool {
			rs, ok := n.(*ast.RangeStmt)
			if !ok {
				return true
			}
			calls := false
			ast.Inspect(rs.Body, func(k ast.Node) bool {
				switch y := k.(type) {
				case *ast.CallExpr:
					if cal := c.Callee(y); cal != nil && appenders[cal] {
						calls = true
					}
					if c.CalleeName(y) == "builtin.append" && len(y.Args) > 0 && isOrder(y.Args[0]) {
						calls = true
					}
				}
				return true
			})
			if !calls {
				return true
			}
			nLoops++
			_, isMap := c.TypeOf(rs.X).Underlying().(*types.Map)
			r.check(!isMap, "order loop "+name, c.Pos(rs), "fields are added while ranging a slice/integer (deterministic order)",
				name+" adds fields to a struct type's Order list while ranging over a map ("+c.Src(rs.X)+"): Go randomises map iteration, so fields added together are listed — and printed — in a different order from run to run")
			return true
		})
	}
	if nLoops == 0 {
		r.undecided("order loop", "-", "no loop that adds fields to Order was found (expected the NEWSTRUCT-type handler or syncFields)")
	}
}

// LOAD-SLOTS: the packages of one load are compiled into one instruction stream that
// runs on one stack of `slots` reserved entries, so the slot count returned with the
// stream must cover the package-level scratch slots of *every* package: the compilers
// built in the loop share one Locals lookup (whose high-water mark is then returned),
// or the maximum over the packages is accumulated.
func ruleLoadSlots(c *Ctx, r *R) {
	n := 0
	for _, name := range c.FuncNames() {
		fd := c.Func(name)
		if fd.Body == nil {
			continue
		}
		ast.Inspect(fd.Body, func(nd ast.Node) bool {
			var body *ast.BlockStmt
			switch l := nd.(type) {
			case *ast.RangeStmt:
				body = l.Body
			case *ast.ForStmt:
				body = l.Body
			default:
				return true
			}
			ast.Inspect(body, func(k ast.Node) bool {
				cl, ok := k.(*ast.CompositeLit)
				if !ok || !isNamed(c.TypeOf(cl), "compiler") {
					return true
				}
				n++
				var locals ast.Expr
				for _, el := range cl.Elts {
					if kv, ok := el.(*ast.KeyValueExpr); ok && isIdent(kv.Key, "Locals") {
						locals = kv.Value
					}
				}
				shared := false
				if id, ok := unparen(locals).(*ast.Ident); ok {
					if o := c.Obj(id); o != nil && (o.Pos() < body.Pos() || o.Pos() > body.End()) {
						// defined outside the loop and not reassigned inside it
						reassigned := false
						ast.Inspect(body, func(q ast.Node) bool {
							if as, ok := q.(*ast.AssignStmt); ok {
								for _, l := range as.Lhs {
									if li, ok := unparen(l).(*ast.Ident); ok && c.Obj(li) == o {
										reassigned = true
									}
								}
							}
							return true
						})
						shared = !reassigned
					}
				}
				// alternative: slots accumulated as a maximum
				maxAcc := false
				ast.Inspect(body, func(q ast.Node) bool {
					switch y := q.(type) {
					case *ast.CallExpr:
						if nm := c.CalleeName(y); nm == "builtin.max" {
							maxAcc = true
						}
					case *ast.IfStmt:
						if be, ok := unparen(y.Cond).(*ast.BinaryExpr); ok && (be.Op == token.GTR || be.Op == token.LSS) && len(y.Body.List) == 1 {
							if as, ok := y.Body.List[0].(*ast.AssignStmt); ok && len(as.Lhs) == 1 && len(as.Rhs) == 1 {
								l, rr := nosp(c.Src(as.Lhs[0])), nosp(c.Src(as.Rhs[0]))
								x, yy := nosp(c.Src(be.X)), nosp(c.Src(be.Y))
								if be.Op == token.GTR && rr == x && l == yy || be.Op == token.LSS && rr == yy && l == x {
									maxAcc = true
								}
							}
						}
					}
					return true
				})
				r.check(shared || maxAcc, "slots "+name, c.Pos(cl), "the per-package compilers share one Locals lookup (or the slot maximum is accumulated)",
					name+" gives each package of a load a Locals lookup of its own and returns the slot count of the package compiled last: the stack is sized for the top package only, so package-level for/range/switch/if-init code of an imported package reads and writes stack entries that were never reserved (LOCALGET out of range, or its loop variables alias the operand stack)")
				return true
			})
			return false
		})
	}
	if n == 0 {
		r.undecided("slots", "-", "no loop that builds a compiler per package was found (compilePkgs)")
	}
}
