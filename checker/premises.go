package main

// Checked premises: small structural facts that triage entries rely on.  A
// triage entry that names a premise is only honoured while the premise holds.

import (
	"fmt"
	"go/ast"
	"go/token"
	"go/types"
	"strings"
)

type premiseFn func(c *Ctx) (bool, string)

var premises = map[string]premiseFn{
	"lookup-ctor":          premLookupCtor,
	"tokenize-eof":         premTokenizeEOF,
	"parse-next-first":     premParseNextFirst,
	"packageNud-child":     premPackageNudChild,
	"loadImports-seed":     premLoadImportsSeed,
	"loadImports-nonempty": premLoadImportsNonEmptyTree,
	"loadImports-select":   premLoadImportsSelect,
	"deps-init":            premDepsInit,
	"files-nonempty":       premFilesNonEmpty,
	"slots-cap":            premSlotsCap,
	"pos-keys":             premPosKeys,
	"btErr-clamp":          premTrue,
	"unshadow-key-probe":   premUnshadowKeyProbe,
}

func premTrue(c *Ctx) (bool, string) { return true, "" }

func (c *Ctx) checkPremises(names string) (bool, string) {
	for _, n := range strings.Split(names, ",") {
		n = strings.TrimSpace(n)
		if n == "" {
			continue
		}
		f, ok := premises[n]
		if !ok {
			return false, "unknown premise " + n
		}
		if ok, why := f(c); !ok {
			return false, "premise " + n + " no longer holds: " + why
		}
	}
	return true, ""
}

// every &lookup{...} / lookup{...} literal is in newLookup and initialises keyToIndex.
func premLookupCtor(c *Ctx) (bool, string) {
	ok, why := true, ""
	n := 0
	for _, f := range c.Pkg.Syntax {
		ast.Inspect(f, func(m ast.Node) bool {
			cl, isLit := m.(*ast.CompositeLit)
			if !isLit || !isNamed(c.TypeOf(cl), "lookup") {
				return true
			}
			n++
			fd := c.EnclosingFunc(cl)
			if fd == nil || fd.Name.Name != "newLookup" {
				ok, why = false, "a lookup literal outside newLookup at "+c.Pos(cl)
				return true
			}
			has := false
			for _, el := range cl.Elts {
				if kv, isKV := el.(*ast.KeyValueExpr); isKV && types.ExprString(kv.Key) == "keyToIndex" {
					switch v := unparen(kv.Value).(type) {
					case *ast.CompositeLit:
						has = true
					case *ast.CallExpr:
						has = c.CalleeName(v) == "builtin.make"
					}
				}
			}
			if !has {
				ok, why = false, "newLookup does not initialise keyToIndex"
			}
			return true
		})
	}
	if n == 0 {
		return false, "no lookup literal found"
	}
	return ok, why
}

// tokenize: every return is reached only after the (eof) token was appended, i.e.
// the statement immediately before each return appends a token whose Symbol is "(eof)".
func premTokenizeEOF(c *Ctx) (bool, string) {
	fd := c.Func("tokenize")
	if fd == nil {
		return false, "tokenize not found"
	}
	ok, why := true, ""
	rets := 0
	var visit func(list []ast.Stmt)
	visit = func(list []ast.Stmt) {
		for i, s := range list {
			switch x := s.(type) {
			case *ast.ReturnStmt:
				rets++
				good := false
				if i > 0 {
					if as, isAs := list[i-1].(*ast.AssignStmt); isAs && len(as.Rhs) == 1 {
						if call, isCall := unparen(as.Rhs[0]).(*ast.CallExpr); isCall && c.CalleeName(call) == "builtin.append" {
							ast.Inspect(call, func(m ast.Node) bool {
								if kv, isKV := m.(*ast.KeyValueExpr); isKV && types.ExprString(kv.Key) == "Symbol" {
									if sv, isStr := c.ConstString(kv.Value); isStr && sv == "(eof)" {
										good = true
									}
								}
								return true
							})
						}
					}
				}
				if !good {
					ok, why = false, "a return of tokenize is not immediately preceded by appending the (eof) token ("+c.Pos(x)+")"
				}
			case *ast.BlockStmt:
				visit(x.List)
			case *ast.IfStmt:
				visit(x.Body.List)
				if b, isB := x.Else.(*ast.BlockStmt); isB {
					visit(b.List)
				}
			case *ast.ForStmt:
				visit(x.Body.List)
			}
		}
	}
	visit(fd.Body.List)
	if rets == 0 {
		return false, "tokenize has no return"
	}
	return ok, why
}

// parse: the first statement after the defer is p.Next(), and parse is only
// called with the result of tokenize.
func premParseNextFirst(c *Ctx) (bool, string) {
	fd := c.Func("parse")
	if fd == nil {
		return false, "parse not found"
	}
	for i, s := range fd.Body.List {
		if _, ok := s.(*ast.DeferStmt); ok {
			if i+1 < len(fd.Body.List) {
				if es, ok := fd.Body.List[i+1].(*ast.ExprStmt); ok {
					if call, ok := es.X.(*ast.CallExpr); ok && c.CalleeName(call) == "parser.Next" {
						goto callers
					}
				}
			}
			return false, "the statement after parse's defer is not p.Next()"
		}
	}
	return false, "parse has no defer"
callers:
	// every call of parse passes a variable assigned from tokenize(...)
	ok, why := true, ""
	for _, f := range c.Pkg.Syntax {
		ast.Inspect(f, func(m ast.Node) bool {
			call, isCall := m.(*ast.CallExpr)
			if !isCall || c.CalleeName(call) != "parse" || len(call.Args) != 1 {
				return true
			}
			id, isId := unparen(call.Args[0]).(*ast.Ident)
			if !isId {
				ok, why = false, "parse called with a non-variable at "+c.Pos(call)
				return true
			}
			fromTok := false
			if efd := c.EnclosingFunc(call); efd != nil {
				ast.Inspect(efd.Body, func(k ast.Node) bool {
					if as, isAs := k.(*ast.AssignStmt); isAs && len(as.Rhs) == 1 {
						if rc, isC := unparen(as.Rhs[0]).(*ast.CallExpr); isC && c.CalleeName(rc) == "tokenize" {
							if lid, isL := as.Lhs[0].(*ast.Ident); isL && c.Obj(lid) == c.Obj(id) {
								fromTok = true
							}
						}
					}
					return true
				})
			}
			if !fromTok {
				ok, why = false, "parse called with something other than tokenize's result at "+c.Pos(call)
			}
			return true
		})
	}
	return ok, why
}

// packageNud appends exactly one child obtained by Advance("(name)") on every path.
func premPackageNudChild(c *Ctx) (bool, string) {
	rows, err := c.symbolTable()
	if err != nil || rows["package"] == nil || rows["package"].Nud == nil {
		return false, "no Nud for package"
	}
	fd := c.DeclOf(rows["package"].Nud)
	if fd == nil {
		return false, "package Nud is not a declared function"
	}
	if len(fd.Body.List) == 0 {
		return false, "empty"
	}
	es, ok := fd.Body.List[0].(*ast.ExprStmt)
	if !ok {
		return false, "the first statement of " + fd.Name.Name + " is not t.Append(p.Advance(\"(name)\"))"
	}
	call, ok := es.X.(*ast.CallExpr)
	if !ok || c.CalleeName(call) != "token.Append" || len(call.Args) != 1 {
		return false, "the first statement of " + fd.Name.Name + " is not t.Append(...)"
	}
	inner, ok := unparen(call.Args[0]).(*ast.CallExpr)
	if !ok || c.CalleeName(inner) != "parser.Advance" {
		return false, fd.Name.Name + " does not append p.Advance(...)"
	}
	return true, ""
}

func topLevelIndex(list []ast.Stmt, pred func(ast.Stmt) bool) int {
	for i, s := range list {
		if pred(s) {
			return i
		}
	}
	return -1
}

// loadImportsLoops finds the discovery (worklist) loop and the ordering loop of the
// loader by shape, in loadImports or in helpers it was split into:
//
//	discovery: for len(W) > 0 { ... W = W[:len(W)-1] ... }   (W a slice)
//	ordering:  for len(M) > 0 { ... delete(M, k) ... }       (M a map)
//
// fd is the function holding the discovery loop.
func (c *Ctx) loadImportsLoops() (fd *ast.FuncDecl, first, second *ast.ForStmt) {
	root := c.Func("loadImports")
	if root == nil {
		return
	}
	for _, h := range c.withHelpers(root) {
		ast.Inspect(h.Body, func(n ast.Node) bool {
			f, ok := n.(*ast.ForStmt)
			if !ok || f.Cond == nil {
				return true
			}
			be, ok := unparen(f.Cond).(*ast.BinaryExpr)
			if !ok {
				return true
			}
			call, ok := unparen(be.X).(*ast.CallExpr)
			if !ok || c.CalleeName(call) != "builtin.len" || len(call.Args) != 1 {
				return true
			}
			switch c.TypeOf(call.Args[0]).Underlying().(type) {
			case *types.Slice:
				if first == nil {
					first, fd = f, h
				}
			case *types.Map:
				if second == nil {
					second = f
				}
			}
			return true
		})
	}
	if first == nil || second == nil {
		return nil, nil, nil
	}
	return
}

// loadImports: the worklist starts non-empty, the first loop records the popped
// package at top level, and the second loop appends one tree per iteration.
func premLoadImportsSeed(c *Ctx) (bool, string) {
	fd, first, second := c.loadImportsLoops()
	if fd == nil || first == nil || second == nil {
		return false, "loadImports does not have its two loops"
	}
	seeded := false
	ast.Inspect(c.Func("loadImports").Body, func(n ast.Node) bool {
		// a helper called with a seeded literal: collect(sys, []string{topPkg}, ...)
		if cl, ok := n.(*ast.CompositeLit); ok && len(cl.Elts) >= 1 {
			if sl, isSlice := c.TypeOf(cl).Underlying().(*types.Slice); isSlice {
				if b, isB := sl.Elem().Underlying().(*types.Basic); isB && b.Kind() == types.String {
					seeded = true
				}
			}
		}
		return true
	})
	for _, s := range fd.Body.List {
		if as, ok := s.(*ast.AssignStmt); ok && len(as.Rhs) == 1 {
			if cl, ok := unparen(as.Rhs[0]).(*ast.CompositeLit); ok && len(cl.Elts) >= 1 {
				if _, isSlice := c.TypeOf(cl).Underlying().(*types.Slice); isSlice && s.Pos() < first.Pos() {
					seeded = true
				}
			}
		}
	}
	if !seeded {
		return false, "the worklist is not seeded with the top package"
	}
	rec := topLevelIndex(first.Body.List, func(s ast.Stmt) bool {
		as, ok := s.(*ast.AssignStmt)
		if !ok || len(as.Lhs) != 1 {
			return false
		}
		ix, ok := unparen(as.Lhs[0]).(*ast.IndexExpr)
		return ok && c.Src(ix.X) == "packages"
	})
	if rec < 0 {
		return false, "the first loop does not record the package at top level"
	}
	app := topLevelIndex(second.Body.List, func(s ast.Stmt) bool {
		as, ok := s.(*ast.AssignStmt)
		if !ok || len(as.Rhs) != 1 {
			return false
		}
		call, ok := unparen(as.Rhs[0]).(*ast.CallExpr)
		return ok && c.CalleeName(call) == "builtin.append" && c.Src(as.Lhs[0]) == "res"
	})
	if app < 0 {
		return false, "the ordering loop does not append a tree at top level"
	}
	return true, ""
}

// the tree appended to the result has at least one child: an empty one is replaced first.
func premLoadImportsNonEmptyTree(c *Ctx) (bool, string) {
	_, _, second := c.loadImportsLoops()
	if second == nil {
		return false, "ordering loop not found"
	}
	list := second.Body.List
	app := topLevelIndex(list, func(s ast.Stmt) bool {
		as, ok := s.(*ast.AssignStmt)
		if !ok || len(as.Rhs) != 1 {
			return false
		}
		call, ok := unparen(as.Rhs[0]).(*ast.CallExpr)
		return ok && c.CalleeName(call) == "builtin.append" && c.Src(as.Lhs[0]) == "res"
	})
	if app < 1 {
		return false, "no append of the selected tree"
	}
	call := unparen(list[app].(*ast.AssignStmt).Rhs[0]).(*ast.CallExpr)
	tree := c.Src(call.Args[len(call.Args)-1])
	// some earlier top-level `if len(tree.Tokens) == 0 { tree = ...; tree.Append(...) }`
	for _, s := range list[:app] {
		ifs, ok := s.(*ast.IfStmt)
		if !ok {
			continue
		}
		if _, f := c.lenBound(ifs.Cond, nosp(tree+".Tokens")); f != 1 {
			continue
		}
		reassigned, appended := false, false
		for _, b := range ifs.Body.List {
			if as, ok := b.(*ast.AssignStmt); ok && c.Src(as.Lhs[0]) == tree {
				reassigned = true
				// tree = helper(...): a new helper whose every result has had a child appended
				if len(as.Rhs) == 1 {
					if hc, ok := unparen(as.Rhs[0]).(*ast.CallExpr); ok {
						if o := c.Callee(hc); o != nil && c.isNewHelper(o) {
							if hfd := c.DeclOf(o); hfd != nil && c.returnsNonEmptyTree(hfd) {
								appended = true
							}
						}
					}
				}
			}
			if es, ok := b.(*ast.ExprStmt); ok {
				if cc, ok := es.X.(*ast.CallExpr); ok && c.CalleeName(cc) == "token.Append" {
					if sel, ok := unparen(cc.Fun).(*ast.SelectorExpr); ok && c.Src(sel.X) == tree {
						appended = true
					}
				}
			}
		}
		if reassigned && appended {
			// nothing between the replacement and the append may rebind the tree
			clean := true
			for _, later := range list[:app] {
				if later.Pos() <= ifs.Pos() {
					continue
				}
				ast.Inspect(later, func(m ast.Node) bool {
					if as, ok := m.(*ast.AssignStmt); ok {
						for _, l := range as.Lhs {
							if c.Src(l) == tree {
								clean = false
							}
						}
					}
					return true
				})
			}
			if clean {
				return true, ""
			}
			return false, "the tree is rebound between the empty-tree replacement and its append"
		}
	}
	return false, "an empty package tree is no longer replaced by a synthetic one-child tree before it is returned"
}

// the package selected in the ordering loop is definitely taken from `keys`
// (found flag + return), and packages/keys are shrunk together.
func premLoadImportsSelect(c *Ctx) (bool, string) {
	_, _, second := c.loadImportsLoops()
	if second == nil {
		return false, "ordering loop not found"
	}
	sel := c.selectionDrain(second)
	if sel == "" {
		return true, ""
	}
	return false, sel
}

// selectionDrain checks the shape
//
//	for len(M) > 0 { K, F := ..; for _, k := range S { ...; K, F = k, true; break }; if !F { return }; ... delete(M, K) ...; idx := slices.Index(S, K); S = slices.Delete(S, idx, idx+1) }
//
// and returns "" when it holds, else what is missing.
func (c *Ctx) selectionDrain(loop *ast.ForStmt) string {
	if c.selectionDrainIndexed(loop) == "" {
		return ""
	}
	list := loop.Body.List
	var rng *ast.RangeStmt
	rngIdx := -1
	for i, s := range list {
		if r, ok := s.(*ast.RangeStmt); ok {
			rng, rngIdx = r, i
			break
		}
	}
	if rng == nil {
		return "no selection loop"
	}
	S := c.Src(rng.X)
	val, _ := rng.Value.(*ast.Ident)
	if val == nil {
		return "selection loop has no value variable"
	}
	// inside: K, F = k, true (tuple or two assignments) at top level of the range body
	var K, F string
	for _, s := range rng.Body.List {
		as, ok := s.(*ast.AssignStmt)
		if !ok {
			continue
		}
		for i, l := range as.Lhs {
			if i < len(as.Rhs) {
				if id, ok := unparen(as.Rhs[i]).(*ast.Ident); ok && c.Obj(id) == c.Info.Defs[val] {
					K = c.Src(l)
				}
				if id, ok := unparen(as.Rhs[i]).(*ast.Ident); ok && id.Name == "true" {
					F = c.Src(l)
				}
			}
		}
	}
	if K == "" || F == "" {
		return "the selection does not set both the selected key and a found flag from the range variable"
	}
	// the flag starts false in every round: it is declared or reset in the loop body before the selection
	reset := false
	for _, s := range list[:rngIdx] {
		switch x := s.(type) {
		case *ast.AssignStmt:
			for i, l := range x.Lhs {
				if c.Src(l) == F && i < len(x.Rhs) {
					if id, ok := unparen(x.Rhs[i]).(*ast.Ident); ok && id.Name == "false" {
						reset = true
					}
				}
			}
		case *ast.DeclStmt:
			if gd, ok := x.Decl.(*ast.GenDecl); ok {
				for _, sp := range gd.Specs {
					if vs, ok := sp.(*ast.ValueSpec); ok {
						for i, nm := range vs.Names {
							if nm.Name == F && (len(vs.Values) == 0 || (i < len(vs.Values) && isIdent(vs.Values[i], "false"))) {
								reset = true
							}
						}
					}
				}
			}
		}
	}
	if !reset {
		return "the found flag `" + F + "` is not reset to false at the start of each round: once one round has selected a package it stays true, so a later round that finds nothing (an import cycle behind at least one loadable package) skips the error and goes on with the stale key"
	}
	// after the range: if !F { return }
	guard := -1
	for i := rngIdx + 1; i < len(list); i++ {
		if ifs, ok := list[i].(*ast.IfStmt); ok {
			if u, ok := unparen(ifs.Cond).(*ast.UnaryExpr); ok && u.Op == token.NOT && c.Src(u.X) == F && terminating(ifs.Body) {
				if _, isRet := ifs.Body.List[len(ifs.Body.List)-1].(*ast.ReturnStmt); isRet {
					guard = i
				}
			}
			break
		}
		break
	}
	if guard < 0 {
		return "no `if !" + F + " { return ... }` directly after the selection: with no selectable element the loop continues with the zero key"
	}
	// S = slices.Delete(S, idx, idx+1) with idx := slices.Index(S, K)
	shr := false
	for _, s := range list[guard+1:] {
		as, ok := s.(*ast.AssignStmt)
		if !ok || len(as.Rhs) != 1 || c.Src(as.Lhs[0]) != S {
			continue
		}
		call, ok := unparen(as.Rhs[0]).(*ast.CallExpr)
		if !ok || !strings.HasSuffix(c.CalleeName(call), "slices.Delete") || len(call.Args) != 3 || c.Src(call.Args[0]) != S {
			continue
		}
		idx := c.Src(call.Args[1])
		if nosp(c.Src(call.Args[2])) != nosp(idx+"+1") {
			continue
		}
		// idx := slices.Index(S, K)
		for _, s2 := range list[guard+1:] {
			as2, ok := s2.(*ast.AssignStmt)
			if !ok || len(as2.Rhs) != 1 || c.Src(as2.Lhs[0]) != idx {
				continue
			}
			c2, ok := unparen(as2.Rhs[0]).(*ast.CallExpr)
			if ok && strings.HasSuffix(c.CalleeName(c2), "slices.Index") && len(c2.Args) == 2 && c.Src(c2.Args[0]) == S && c.Src(c2.Args[1]) == K {
				shr = true
			}
		}
	}
	if !shr {
		return "the candidate list is not shrunk by the selected key every iteration"
	}
	return ""
}

// deps[pkg] is given a fresh map at top level of the discovery loop before it is written.
func premDepsInit(c *Ctx) (bool, string) {
	_, first, _ := c.loadImportsLoops()
	if first == nil {
		return false, "discovery loop not found"
	}
	init := topLevelIndex(first.Body.List, func(s ast.Stmt) bool {
		as, ok := s.(*ast.AssignStmt)
		if !ok || len(as.Lhs) != 1 || len(as.Rhs) != 1 {
			return false
		}
		ix, ok := unparen(as.Lhs[0]).(*ast.IndexExpr)
		if !ok || c.Src(ix.X) != "deps" {
			return false
		}
		_, isLit := unparen(as.Rhs[0]).(*ast.CompositeLit)
		return isLit
	})
	if init < 0 {
		return false, "deps[pkg] is not initialised at top level of the discovery loop"
	}
	// every write deps[..][..] = .. comes later
	ok := true
	ast.Inspect(first.Body, func(m ast.Node) bool {
		if as, isAs := m.(*ast.AssignStmt); isAs {
			for _, l := range as.Lhs {
				if ix, isIx := unparen(l).(*ast.IndexExpr); isIx {
					if in, isIn := unparen(ix.X).(*ast.IndexExpr); isIn && c.Src(in.X) == "deps" && as.Pos() < first.Body.List[init].Pos() {
						ok = false
					}
				}
			}
		}
		return true
	})
	if !ok {
		return false, "a write to deps[pkg][..] precedes its initialisation"
	}
	return true, ""
}

// rawLoadPackage: files gets an element whenever pkgs does, and an empty pkgs returns before joinFiles.
func premFilesNonEmpty(c *Ctx) (bool, string) {
	fd := c.Func("rawLoadPackage")
	if fd == nil {
		return false, "rawLoadPackage not found"
	}
	var join *ast.CallExpr
	ast.Inspect(fd.Body, func(m ast.Node) bool {
		if call, ok := m.(*ast.CallExpr); ok && c.CalleeName(call) == "joinFiles" {
			join = call
		}
		return true
	})
	if join == nil {
		return false, "no call of joinFiles"
	}
	files := c.Src(join.Args[0])
	// the call is preceded, at top level, by `if len(X) == 0 { return }` and X[...] = .. sits in the same block as files = append(files, ..)
	var guardVar string
	for _, s := range fd.Body.List {
		if s.Pos() > join.Pos() {
			break
		}
		if ifs, ok := s.(*ast.IfStmt); ok && terminating(ifs.Body) {
			if be, ok := unparen(ifs.Cond).(*ast.BinaryExpr); ok && be.Op == token.EQL {
				if call, ok := unparen(be.X).(*ast.CallExpr); ok && c.CalleeName(call) == "builtin.len" {
					if z, ok := c.ConstInt(be.Y); ok && z == 0 {
						guardVar = c.Src(call.Args[0])
					}
				}
			}
		}
	}
	if guardVar == "" {
		return false, "no emptiness check before joinFiles"
	}
	if guardVar == files {
		return true, ""
	}
	paired := false
	ast.Inspect(fd.Body, func(m ast.Node) bool {
		b, ok := m.(*ast.BlockStmt)
		if !ok {
			return true
		}
		gi, fi := -1, -1
		for i, s := range b.List {
			if as, ok := s.(*ast.AssignStmt); ok && len(as.Lhs) == 1 {
				if ix, ok := unparen(as.Lhs[0]).(*ast.IndexExpr); ok && c.Src(ix.X) == guardVar {
					gi = i
				}
				if c.Src(as.Lhs[0]) == files {
					if call, ok := unparen(as.Rhs[0]).(*ast.CallExpr); ok && c.CalleeName(call) == "builtin.append" {
						fi = i
					}
				}
			}
		}
		if gi >= 0 && fi >= 0 {
			// nothing between them leaves the block
			lo, hi := gi, fi
			if lo > hi {
				lo, hi = hi, lo
			}
			clean := true
			for _, s := range b.List[lo+1 : hi] {
				ast.Inspect(s, func(k ast.Node) bool {
					switch k.(type) {
					case *ast.ReturnStmt, *ast.BranchStmt:
						clean = false
					}
					return true
				})
			}
			if clean {
				paired = true
			}
		}
		return true
	})
	if !paired {
		return false, "the set tested for emptiness and the file list are no longer filled together"
	}
	return true, ""
}

// the slot count handed to VM.run is lookup.Cap() of the compiler's locals, which never decreases below 0.
func premSlotsCap(c *Ctx) (bool, string) {
	fd := c.Func("lookup.Cap")
	if fd == nil {
		return false, "lookup.Cap not found"
	}
	// cap is only ever assigned len(l.data)
	ok, why := true, ""
	for _, f := range c.Pkg.Syntax {
		ast.Inspect(f, func(m ast.Node) bool {
			as, isAs := m.(*ast.AssignStmt)
			if !isAs {
				return true
			}
			for i, l := range as.Lhs {
				sel, isSel := unparen(l).(*ast.SelectorExpr)
				if !isSel || sel.Sel.Name != "cap" || !isNamed(c.TypeOf(sel.X), "lookup") {
					continue
				}
				if i >= len(as.Rhs) || !isLenDerived(c, as.Rhs[i]) || as.Tok != token.ASSIGN {
					ok, why = false, "lookup.cap assigned something other than a len() at "+c.Pos(as)
				}
			}
			return true
		})
	}
	// compiler.run returns c.Locals.Cap()
	run := c.Func("compiler.run")
	if run == nil {
		return false, "compiler.run not found"
	}
	found := false
	ast.Inspect(run.Body, func(m ast.Node) bool {
		if rs, isR := m.(*ast.ReturnStmt); isR && len(rs.Results) == 3 {
			if call, isC := unparen(rs.Results[1]).(*ast.CallExpr); isC && c.CalleeName(call) == "lookup.Cap" {
				found = true
			}
		}
		return true
	})
	if !found {
		return false, "compiler.run does not return Locals.Cap() as the slot count"
	}
	return ok, why
}

// positions: newPos interns two keys with a non-empty constant prefix and packs
// every component masked to the 16 bits pos.info reads back, so a large line or
// column number cannot spill into the neighbouring index field.
func premPosKeys(c *Ctx) (bool, string) {
	fd := c.Func("newPos")
	if fd == nil {
		return false, "newPos not found"
	}
	n := 0
	ok := true
	ast.Inspect(fd.Body, func(m ast.Node) bool {
		if call, isC := m.(*ast.CallExpr); isC && c.CalleeName(call) == "lookup.Index" && len(call.Args) == 1 {
			n++
			be, isB := unparen(call.Args[0]).(*ast.BinaryExpr)
			if !isB || be.Op != token.ADD {
				ok = false
				return true
			}
			if s, isS := c.ConstString(be.X); !isS || len(s) < 1 {
				ok = false
			}
		}
		return true
	})
	if n < 2 || !ok {
		return false, fmt.Sprintf("newPos no longer interns two keys with a non-empty constant prefix (%d found)", n)
	}
	// the packed expression: every operand of the |-chain is masked with 0xffff before it is shifted
	var ret *ast.ReturnStmt
	ast.Inspect(fd.Body, func(m ast.Node) bool {
		if rs, isR := m.(*ast.ReturnStmt); isR {
			ret = rs
		}
		return true
	})
	if ret == nil || len(ret.Results) != 1 {
		return false, "newPos has no single return"
	}
	var terms []ast.Expr
	var split func(e ast.Expr)
	split = func(e ast.Expr) {
		e = unparen(e)
		if call, isC := e.(*ast.CallExpr); isC {
			if _, conv := c.IsConversion(call); conv && len(call.Args) == 1 {
				split(call.Args[0])
				return
			}
		}
		if be, isB := e.(*ast.BinaryExpr); isB && be.Op == token.OR {
			split(be.X)
			split(be.Y)
			return
		}
		terms = append(terms, e)
	}
	split(ret.Results[0])
	if len(terms) != 4 {
		return false, fmt.Sprintf("newPos packs %d components, expected 4", len(terms))
	}
	masked := func(e ast.Expr) bool {
		e = unparen(e)
		if be, isB := e.(*ast.BinaryExpr); isB && be.Op == token.SHL {
			e = unparen(be.X)
		}
		for {
			if call, isC := e.(*ast.CallExpr); isC {
				if _, conv := c.IsConversion(call); conv && len(call.Args) == 1 {
					e = unparen(call.Args[0])
					continue
				}
			}
			break
		}
		be, isB := e.(*ast.BinaryExpr)
		if !isB || be.Op != token.AND {
			return false
		}
		k, isK := c.ConstInt(be.Y)
		if !isK {
			k, isK = c.ConstInt(be.X)
		}
		return isK && k == 0xffff
	}
	for _, t := range terms {
		if !masked(t) {
			return false, "newPos packs `" + c.Src(t) + "` without masking it to 16 bits: a line or column >= 65536 spills into the neighbouring name index, and pos.info then looks up an index that does not exist"
		}
	}
	return true, ""
}

// selectionDrainIndexed accepts the equivalent shape
//
//	for len(M) > 0 { idx := slices.IndexFunc(S, pred) | slices.Index(S, x); if idx < 0 { return ... }; K := S[idx]; ...; S = slices.Delete(S, idx, idx+1) }
func (c *Ctx) selectionDrainIndexed(loop *ast.ForStmt) string {
	list := loop.Body.List
	idxVar, S := "", ""
	at := -1
	for i, st := range list {
		as, ok := st.(*ast.AssignStmt)
		if !ok || len(as.Lhs) != 1 || len(as.Rhs) != 1 {
			continue
		}
		call, ok := unparen(as.Rhs[0]).(*ast.CallExpr)
		if !ok {
			continue
		}
		cn := c.CalleeName(call)
		if (strings.HasSuffix(cn, "slices.IndexFunc") || strings.HasSuffix(cn, "slices.Index")) && len(call.Args) == 2 {
			idxVar, S, at = c.Src(as.Lhs[0]), c.Src(call.Args[0]), i
			break
		}
	}
	if at < 0 {
		return "no indexed selection"
	}
	// directly followed by: if idx < 0 { return ... }
	if at+1 >= len(list) {
		return "selection is not followed by a not-found test"
	}
	ifs, ok := list[at+1].(*ast.IfStmt)
	if !ok || !terminating(ifs.Body) {
		return "selection is not followed by `if " + idxVar + " < 0 { return ... }`"
	}
	if _, isRet := ifs.Body.List[len(ifs.Body.List)-1].(*ast.ReturnStmt); !isRet {
		return "the not-found branch does not return"
	}
	be, ok := unparen(ifs.Cond).(*ast.BinaryExpr)
	if !ok || c.Src(be.X) != idxVar {
		return "the not-found test does not test " + idxVar
	}
	k, isK := c.ConstInt(be.Y)
	if !(isK && (be.Op == token.LSS && k == 0 || be.Op == token.EQL && k == -1 || be.Op == token.LEQ && k == -1)) {
		return "the not-found test is not `" + idxVar + " < 0`"
	}
	// S = slices.Delete(S, idx, idx+1) at top level afterwards, idx not reassigned
	shr := false
	for _, st := range list[at+2:] {
		as, ok := st.(*ast.AssignStmt)
		if !ok || len(as.Rhs) != 1 {
			continue
		}
		if c.Src(as.Lhs[0]) == idxVar {
			return idxVar + " is reassigned before the deletion"
		}
		if c.Src(as.Lhs[0]) != S {
			continue
		}
		call, ok := unparen(as.Rhs[0]).(*ast.CallExpr)
		if ok && strings.HasSuffix(c.CalleeName(call), "slices.Delete") && len(call.Args) == 3 && c.Src(call.Args[0]) == S && c.Src(call.Args[1]) == idxVar && nosp(c.Src(call.Args[2])) == nosp(idxVar+"+1") {
			shr = true
		}
	}
	if !shr {
		return "the candidate list is not shrunk at the selected index every iteration"
	}
	return ""
}

// returnsNonEmptyTree: every return of fd yields a local *token on which Append was called
// (unconditionally, at the top level of the body) before the return.
func (c *Ctx) returnsNonEmptyTree(fd *ast.FuncDecl) bool {
	if fd.Body == nil {
		return false
	}
	appended := map[types.Object]bool{}
	ok, n := true, 0
	for _, s := range fd.Body.List {
		switch x := s.(type) {
		case *ast.ExprStmt:
			if call, isCall := x.X.(*ast.CallExpr); isCall && c.CalleeName(call) == "token.Append" {
				if sel, isSel := unparen(call.Fun).(*ast.SelectorExpr); isSel {
					if id, isID := unparen(sel.X).(*ast.Ident); isID && c.Obj(id) != nil {
						appended[c.Obj(id)] = true
					}
				}
			}
		case *ast.ReturnStmt:
			n++
			if len(x.Results) != 1 {
				ok = false
				continue
			}
			id, isID := unparen(x.Results[0]).(*ast.Ident)
			if !isID || !appended[c.Obj(id)] {
				ok = false
			}
		}
	}
	// returns nested in other statements are not understood
	ast.Inspect(fd.Body, func(m ast.Node) bool {
		if rs, isRet := m.(*ast.ReturnStmt); isRet {
			top := false
			for _, s := range fd.Body.List {
				if s == ast.Stmt(rs) {
					top = true
				}
			}
			if !top {
				ok = false
			}
		}
		return true
	})
	return ok && n > 0
}

// premUnshadowKeyProbe: the iterative form of lookup.unshadow.  Its `for { }` loop terminates
// because every iteration that continues (a) has found the probe key "~"+key in the finite
// keyToIndex map, (b) stores into the map only under the shorter key, and (c) ends by making
// the probe the new key: the probe strictly lengthens, and no key at least as long as the
// probe is ever added, so a probe longer than every key is missing after finitely many steps.
// Checked: the loop body starts with `alias := <non-empty const> + key` (or uses that
// expression directly), a comma-ok read of keyToIndex[alias] whose miss returns, every store
// into keyToIndex is under `key`, and key is assigned exactly once, from the probe.
func premUnshadowKeyProbe(c *Ctx) (bool, string) {
	fd := c.Func("lookup.unshadow")
	if fd == nil || fd.Body == nil {
		return false, "lookup.unshadow not found"
	}
	var loop *ast.ForStmt
	for _, st := range fd.Body.List {
		if f, ok := st.(*ast.ForStmt); ok && f.Cond == nil && f.Init == nil && f.Post == nil {
			loop = f
		}
	}
	if loop == nil {
		return false, "no unconditional loop in lookup.unshadow"
	}
	var keyObj types.Object
	for _, f := range fd.Type.Params.List {
		for _, nm := range f.Names {
			keyObj = c.Info.Defs[nm]
		}
	}
	in := newInterp(c)
	st := newState()
	in.bindParams(st, fd.Recv, fd.Type, nil)
	keyTerm := st.Vars[keyObj]
	if keyTerm == nil {
		return false, "key parameter not bound"
	}
	paths := in.execStmts(loop.Body.List, []*State{st})
	if in.Overflow || len(paths) == 0 {
		return false, "cannot enumerate the paths of the loop body"
	}
	continuing := 0
	for _, p := range paths {
		if p.Done == "return" || p.Done == "panic" {
			continue
		}
		if p.Done == "break" {
			continue
		}
		continuing++
		nk := p.Vars[keyObj]
		if nk == nil || nk.Op != "bin" || nk.Name != "+" || len(nk.Args) != 2 || nk.Args[0].Op != "str" || nk.Args[0].Name == "" || !nk.Args[1].Eq(keyTerm) {
			return false, "a continuing iteration does not replace key by <non-empty constant> + key (got " + fmt.Sprint(nk) + ")"
		}
		// the probe was found on this path
		foundProbe := false
		for _, cd := range p.Conds {
			s := cd.String()
			if !strings.HasPrefix(s, "!") && strings.Contains(s, ".keyToIndex") && strings.Contains(s, nk.String()) {
				foundProbe = true
			}
		}
		if !foundProbe {
			return false, "a continuing iteration has not established that the probe key is in keyToIndex: " + condStrings(p)
		}
		for _, e := range p.Eff {
			if e.Kind == "store" && e.Target != nil && e.Target.Op == "index" && strings.HasSuffix(e.Target.Args[0].String(), ".keyToIndex") {
				if !e.Target.Args[1].Eq(keyTerm) {
					return false, "a continuing iteration stores into keyToIndex under " + e.Target.Args[1].String() + ", not under the (shorter) key"
				}
			}
			if e.Kind == "loop" {
				return false, "nested loop"
			}
		}
	}
	if continuing == 0 {
		return false, "no continuing path"
	}
	return true, ""
}
