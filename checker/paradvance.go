package main

// PAR-ADVANCE: parsing terminates.  A min-plus path analysis on go/cfg:
// L(f) = least net number of tokens consumed over all normally returning paths
// of parser function f.  Every CFG cycle and every recursion cycle must have
// weight >= 1.

import (
	"fmt"
	"go/ast"
	"go/token"
	"go/types"
	"sort"
	"strings"

	"golang.org/x/tools/go/cfg"
)

const inf = int64(1) << 40

type parEvent struct {
	Kind    string // "const" "call" "dyn-nud" "dyn-led"
	W       int64
	Callee  *ast.FuncDecl
	Node    ast.Node
	Problem string
}

type parFunc struct {
	Decl   *ast.FuncDecl
	Name   string
	G      *cfg.CFG
	Events map[*cfg.Block][]*parEvent
	L      int64
	Exit   map[*cfg.Block]bool // blocks that end in a normal return
}

type parAnalysis struct {
	c        *Ctx
	Funcs    map[*ast.FuncDecl]*parFunc
	Order    []*parFunc
	Nuds     []*ast.FuncDecl
	Leds     []*ast.FuncDecl
	NoRet    map[types.Object]bool
	Problems []string
}

func isParserType(t types.Type) bool { return isNamed(t, "parser") }

func (c *Ctx) newParAnalysis() (*parAnalysis, error) {
	pa := &parAnalysis{c: c, Funcs: map[*ast.FuncDecl]*parFunc{}, NoRet: c.noReturnFuncs()}
	rows, err := c.symbolTable()
	if err != nil {
		return nil, err
	}
	nudSet, ledSet := map[*ast.FuncDecl]bool{}, map[*ast.FuncDecl]bool{}
	for _, row := range rows {
		if fd := c.DeclOf(row.Nud); fd != nil {
			nudSet[fd] = true
		}
		if fd := c.DeclOf(row.Led); fd != nil {
			ledSet[fd] = true
		}
	}
	// defaults assigned in the init loop: s.Nud = nullNud, s.Led = nullLed
	for _, f := range c.Pkg.Syntax {
		ast.Inspect(f, func(n ast.Node) bool {
			as, ok := n.(*ast.AssignStmt)
			if !ok || len(as.Lhs) != 1 || len(as.Rhs) != 1 {
				return true
			}
			sel, ok := unparen(as.Lhs[0]).(*ast.SelectorExpr)
			if !ok || !isNamed(c.TypeOf(sel.X), "symbol") {
				return true
			}
			fd := c.DeclOf(c.Obj(as.Rhs[0]))
			if fd == nil {
				pa.Problems = append(pa.Problems, "symbol."+sel.Sel.Name+" assigned a non-function at "+c.Pos(as))
				return true
			}
			switch sel.Sel.Name {
			case "Nud":
				nudSet[fd] = true
			case "Led":
				ledSet[fd] = true
			}
			return true
		})
	}
	for fd := range nudSet {
		pa.Nuds = append(pa.Nuds, fd)
	}
	for fd := range ledSet {
		pa.Leds = append(pa.Leds, fd)
	}
	sort.Slice(pa.Nuds, func(i, j int) bool { return pa.Nuds[i].Name.Name < pa.Nuds[j].Name.Name })
	sort.Slice(pa.Leds, func(i, j int) bool { return pa.Leds[i].Name.Name < pa.Leds[j].Name.Name })
	// parser functions: a *parser receiver or parameter
	for _, name := range c.FuncNames() {
		fd := c.funcs[name]
		if fd.Body == nil {
			continue
		}
		isP := false
		for _, fl := range []*ast.FieldList{fd.Recv, fd.Type.Params} {
			if fl == nil {
				continue
			}
			for _, f := range fl.List {
				if isParserType(c.TypeOf(f.Type)) {
					isP = true
				}
			}
		}
		if !isP {
			ast.Inspect(fd.Body, func(n ast.Node) bool {
				if id, ok := n.(*ast.Ident); ok {
					if v, ok := c.Obj(id).(*types.Var); ok && isParserType(v.Type()) {
						isP = true
					}
				}
				return true
			})
		}
		if !isP {
			continue
		}
		pf := &parFunc{Decl: fd, Name: name, L: inf, Events: map[*cfg.Block][]*parEvent{}, Exit: map[*cfg.Block]bool{}}
		pf.G = cfg.New(fd.Body, func(call *ast.CallExpr) bool {
			o := c.Callee(call)
			if o == nil {
				return true
			}
			if b, ok := o.(*types.Builtin); ok && b.Name() == "panic" {
				return false
			}
			return !pa.NoRet[o]
		})
		pa.Funcs[fd] = pf
		pa.Order = append(pa.Order, pf)
	}
	for _, pf := range pa.Order {
		pa.collectEvents(pf)
	}
	return pa, nil
}

func (pa *parAnalysis) collectEvents(pf *parFunc) {
	c := pa.c
	for _, b := range pf.G.Blocks {
		if !b.Live {
			continue
		}
		var evs []*parEvent
		for _, n := range b.Nodes {
			var visit func(n ast.Node)
			visit = func(n ast.Node) {
				switch x := n.(type) {
				case nil:
					return
				case *ast.FuncLit:
					return
				case *ast.CallExpr:
					// arguments (and the receiver expression) are evaluated first
					visit(x.Fun)
					for _, a := range x.Args {
						visit(a)
					}
					o := c.Callee(x)
					if sel, ok := unparen(x.Fun).(*ast.SelectorExpr); ok {
						if s := c.Info.Selections[sel]; s != nil && s.Kind() == types.FieldVal && isNamed(c.TypeOf(sel.X), "symbol") {
							switch sel.Sel.Name {
							case "Nud":
								evs = append(evs, &parEvent{Kind: "dyn-nud", Node: x})
							case "Led":
								evs = append(evs, &parEvent{Kind: "dyn-led", Node: x})
							}
							return
						}
					}
					if fd := c.DeclOf(o); fd != nil {
						if _, isP := pa.Funcs[fd]; isP {
							evs = append(evs, &parEvent{Kind: "call", Callee: fd, Node: x})
						}
					}
					return
				case *ast.IncDecStmt:
					if pa.isParserN(x.X) {
						w := int64(1)
						if x.Tok == token.DEC {
							w = -1
						}
						evs = append(evs, &parEvent{Kind: "const", W: w, Node: x})
						return
					}
				case *ast.AssignStmt:
					for _, r := range x.Rhs {
						visit(r)
					}
					for _, l := range x.Lhs {
						if pa.isParserN(l) {
							k, ok := c.ConstInt(x.Rhs[0])
							switch {
							case ok && x.Tok == token.SUB_ASSIGN:
								evs = append(evs, &parEvent{Kind: "const", W: -k, Node: x})
							case ok && x.Tok == token.ADD_ASSIGN:
								evs = append(evs, &parEvent{Kind: "const", W: k, Node: x})
							default:
								evs = append(evs, &parEvent{Kind: "const", W: -inf, Node: x, Problem: "parser.N is assigned a value the analysis cannot bound: " + c.Src(x.Rhs[0])})
							}
						} else {
							visit(l)
						}
					}
					return
				}
				// generic descent in source order
				ast.Inspect(n, func(m ast.Node) bool {
					if m == n || m == nil {
						return true
					}
					switch m.(type) {
					case *ast.CallExpr, *ast.FuncLit, *ast.IncDecStmt, *ast.AssignStmt:
						visit(m)
						return false
					}
					return true
				})
			}
			visit(n)
		}
		pf.Events[b] = evs
		// exit classification
		if len(b.Succs) == 0 {
			dead := false
			if len(b.Nodes) > 0 {
				last := b.Nodes[len(b.Nodes)-1]
				var call *ast.CallExpr
				switch x := last.(type) {
				case *ast.ExprStmt:
					call, _ = x.X.(*ast.CallExpr)
				case *ast.CallExpr:
					call = x
				}
				if call != nil {
					o := c.Callee(call)
					if bi, ok := o.(*types.Builtin); ok && bi.Name() == "panic" {
						dead = true
					}
					if o != nil && pa.NoRet[o] {
						dead = true
					}
				}
			}
			pf.Exit[b] = !dead
		}
	}
}

func (pa *parAnalysis) isParserN(e ast.Expr) bool {
	sel, ok := unparen(e).(*ast.SelectorExpr)
	return ok && sel.Sel.Name == "N" && isParserType(pa.c.TypeOf(sel.X))
}

func addW(a, b int64) int64 {
	if a >= inf || b >= inf {
		return inf
	}
	if a <= -inf || b <= -inf {
		return -inf
	}
	return a + b
}

func (pa *parAnalysis) eventW(e *parEvent) int64 {
	switch e.Kind {
	case "const":
		return e.W
	case "call":
		return pa.Funcs[e.Callee].L
	case "dyn-nud":
		m := inf
		for _, fd := range pa.Nuds {
			if pf := pa.Funcs[fd]; pf != nil && pf.L < m {
				m = pf.L
			}
		}
		return m
	case "dyn-led":
		m := inf
		for _, fd := range pa.Leds {
			if pf := pa.Funcs[fd]; pf != nil && pf.L < m {
				m = pf.L
			}
		}
		return m
	}
	return 0
}

func (pa *parAnalysis) blockW(pf *parFunc, b *cfg.Block) int64 {
	w := int64(0)
	for _, e := range pf.Events[b] {
		w = addW(w, pa.eventW(e))
	}
	return w
}

// cutEdge: back edges of range loops and of counted loops are bounded by the
// collection and are judged by TERM-LOOPS, not by token consumption.
func (pa *parAnalysis) cutEdge(from, to *cfg.Block) bool {
	if from.Index <= to.Index {
		return false
	}
	switch to.Kind {
	case cfg.KindRangeLoop:
		return true
	case cfg.KindForLoop:
		if fs, ok := to.Stmt.(*ast.ForStmt); ok && pa.c.isCountedLoop(fs) {
			return true
		}
	}
	return false
}

// shortest distances to block entries (Bellman-Ford over node weights); ok=false on a non-positive... negative cycle.
func (pa *parAnalysis) dist(pf *parFunc) map[*cfg.Block]int64 {
	d := map[*cfg.Block]int64{}
	for _, b := range pf.G.Blocks {
		d[b] = inf
	}
	if len(pf.G.Blocks) == 0 {
		return d
	}
	d[pf.G.Blocks[0]] = 0
	n := len(pf.G.Blocks)
	for it := 0; it < n+1; it++ {
		changed := false
		for _, b := range pf.G.Blocks {
			if !b.Live || d[b] >= inf {
				continue
			}
			out := addW(d[b], pa.blockW(pf, b))
			if out >= inf {
				continue
			}
			for _, s := range b.Succs {
				if pa.cutEdge(b, s) {
					continue
				}
				if out < d[s] {
					d[s] = out
					changed = true
				}
			}
		}
		if !changed {
			break
		}
	}
	return d
}

func (pa *parAnalysis) solve() int {
	rounds := 0
	for {
		rounds++
		changed := false
		for _, pf := range pa.Order {
			d := pa.dist(pf)
			best := inf
			for b, isExit := range pf.Exit {
				if !isExit || d[b] >= inf {
					continue
				}
				v := addW(d[b], pa.blockW(pf, b))
				if v < best {
					best = v
				}
			}
			if best != pf.L {
				if best < pf.L {
					pf.L = best
					changed = true
				}
			}
		}
		if !changed || rounds > 200 {
			break
		}
	}
	return rounds
}

// badCycle finds a CFG cycle of weight <= 0 in pf (after cutting bounded back edges).
func (pa *parAnalysis) badCycle(pf *parFunc) ([]*cfg.Block, int64) {
	blocks := pf.G.Blocks
	n := int64(len(blocks))
	scaled := func(b *cfg.Block) int64 {
		w := pa.blockW(pf, b)
		if w >= inf {
			return inf
		}
		return w*(n+1) - 1
	}
	d := map[*cfg.Block]int64{}
	pred := map[*cfg.Block]*cfg.Block{}
	for _, b := range blocks {
		d[b] = 0 // detect cycles anywhere
	}
	var last *cfg.Block
	for it := int64(0); it <= n; it++ {
		last = nil
		for _, b := range blocks {
			if !b.Live {
				continue
			}
			w := scaled(b)
			if w >= inf {
				continue
			}
			for _, s := range b.Succs {
				if pa.cutEdge(b, s) || !s.Live {
					continue
				}
				if d[b]+w < d[s] {
					d[s] = d[b] + w
					pred[s] = b
					last = s
				}
			}
		}
		if last == nil {
			return nil, 0
		}
	}
	// walk back n steps to land inside the cycle
	x := last
	for i := int64(0); i < n; i++ {
		x = pred[x]
	}
	var cyc []*cfg.Block
	sum := int64(0)
	for y := x; ; y = pred[y] {
		cyc = append(cyc, y)
		sum = addW(sum, pa.blockW(pf, y))
		if pred[y] == x || len(cyc) > int(n)+1 {
			break
		}
	}
	return cyc, sum
}

// isCountedLoop: for i := a; i < X / i >= 0; i++ / i-- / i += k  where the body does not assign i.
func (c *Ctx) isCountedLoop(f *ast.ForStmt) bool {
	if f.Init == nil || f.Cond == nil || f.Post == nil {
		return false
	}
	init, ok := f.Init.(*ast.AssignStmt)
	if !ok || len(init.Lhs) != 1 {
		return false
	}
	id, ok := init.Lhs[0].(*ast.Ident)
	if !ok {
		return false
	}
	o := c.Info.Defs[id]
	if o == nil {
		o = c.Info.Uses[id]
	}
	// further conjuncts only end the loop earlier: one conjunct bounding the variable suffices
	var be *ast.BinaryExpr
	for _, cj := range conjuncts(f.Cond) {
		b, ok := unparen(cj).(*ast.BinaryExpr)
		if !ok {
			continue
		}
		if cid, ok := unparen(b.X).(*ast.Ident); ok && c.Obj(cid) == o {
			be = b
			break
		}
	}
	if be == nil {
		return false
	}
	up := false
	switch p := f.Post.(type) {
	case *ast.IncDecStmt:
		pid, ok := unparen(p.X).(*ast.Ident)
		if !ok || c.Obj(pid) != o {
			return false
		}
		up = p.Tok == token.INC
	case *ast.AssignStmt:
		pid, ok := unparen(p.Lhs[0]).(*ast.Ident)
		if !ok || c.Obj(pid) != o {
			return false
		}
		k, ok := c.ConstInt(p.Rhs[0])
		if !ok || k <= 0 {
			return false
		}
		switch p.Tok {
		case token.ADD_ASSIGN:
			up = true
		case token.SUB_ASSIGN:
			up = false
		default:
			return false
		}
	default:
		return false
	}
	switch be.Op {
	case token.LSS, token.LEQ:
		if !up {
			return false
		}
	case token.GTR, token.GEQ:
		if up {
			return false
		}
	default:
		return false
	}
	// the body may move the variable only in the loop's direction; the bound must not be assigned in the body
	okBody := true
	boundObjs := map[types.Object]bool{}
	ast.Inspect(be.Y, func(n ast.Node) bool {
		if bid, ok := n.(*ast.Ident); ok {
			if v, ok := c.Obj(bid).(*types.Var); ok {
				boundObjs[v] = true
			}
		}
		return true
	})
	ast.Inspect(f.Body, func(n ast.Node) bool {
		switch x := n.(type) {
		case *ast.AssignStmt:
			for _, l := range x.Lhs {
				lid, ok := unparen(l).(*ast.Ident)
				if !ok {
					continue
				}
				lo := c.Obj(lid)
				if lo == o {
					k, isC := c.ConstInt(x.Rhs[0])
					if !(isC && k > 0 && (up && x.Tok == token.ADD_ASSIGN || !up && x.Tok == token.SUB_ASSIGN)) {
						okBody = false
					}
				} else if boundObjs[lo] && x.Tok != token.DEFINE {
					okBody = false // a variable of the bound is reassigned in the body
				}
			}
		case *ast.IncDecStmt:
			if lid, ok := unparen(x.X).(*ast.Ident); ok && c.Obj(lid) == o {
				if up != (x.Tok == token.INC) {
					okBody = false
				}
			}
		}
		return true
	})
	return okBody
}

func fmtL(v int64) string {
	if v >= inf {
		return "+inf"
	}
	if v <= -inf {
		return "-inf"
	}
	return fmt.Sprint(v)
}

func ruleParAdvance(c *Ctx, r *R) {
	pa, err := c.newParAnalysis()
	if err != nil {
		r.undecided("parser", "-", err.Error())
		return
	}
	for _, p := range pa.Problems {
		r.undecided("table", "-", p)
	}
	rounds := pa.solve()
	r.note("fixpoint reached in %d rounds over %d parser functions, %d Nud and %d Led targets", rounds, len(pa.Order), len(pa.Nuds), len(pa.Leds))
	var ls []string
	for _, pf := range pa.Order {
		ls = append(ls, pf.Name+"="+fmtL(pf.L))
	}
	r.note("L: %s", strings.Join(ls, " "))
	// (c) writes to parser.N
	for _, pf := range pa.Order {
		for _, evs := range pf.Events {
			for _, e := range evs {
				if e.Problem != "" {
					r.undecided("N-write "+pf.Name, c.Pos(e.Node), e.Problem)
				}
			}
		}
	}
	writes := 0
	for _, f := range c.Pkg.Syntax {
		ast.Inspect(f, func(n ast.Node) bool {
			var lhs []ast.Expr
			switch x := n.(type) {
			case *ast.AssignStmt:
				lhs = x.Lhs
			case *ast.IncDecStmt:
				lhs = []ast.Expr{x.X}
			}
			for _, l := range lhs {
				if pa.isParserN(l) {
					writes++
					fd := c.EnclosingFunc(n)
					_, inP := pa.Funcs[fd]
					r.check(inP, "N-write "+c.Pos(n), c.Pos(n), "inside an analysed parser function", "parser.N is written outside the parser functions the analysis covers")
				}
			}
			return true
		})
	}
	if writes == 0 {
		r.undecided("N-writes", "-", "no write to parser.N found: the token cursor is no longer the field the analysis tracks")
	}
	// (a) every CFG cycle consumes >= 1 token
	for _, pf := range pa.Order {
		loops := 0
		for _, b := range pf.G.Blocks {
			if b.Live && (b.Kind == cfg.KindForLoop || b.Kind == cfg.KindRangeLoop) {
				loops++
			}
		}
		cyc, sum := pa.badCycle(pf)
		key := "cycles " + pf.Name
		if cyc == nil {
			r.ok(key, fmt.Sprintf("L=%s, %d loop(s): every CFG cycle consumes at least one token", fmtL(pf.L), loops))
			continue
		}
		pos := c.Pos(pf.Decl)
		what := ""
		for _, b := range cyc {
			if b.Stmt != nil && (b.Kind == cfg.KindForLoop || b.Kind == cfg.KindForBody) {
				pos = c.Pos(b.Stmt)
				what = "the loop at " + pos
			}
		}
		r.fail(key, pos, fmt.Sprintf("%s has a control-flow cycle (%s) that can consume %s tokens per iteration: on some input the parser loops forever without advancing (and allocates until the host dies)", pf.Name, what, fmtL(sum)))
	}
	// (b) recursion cycles: tokens consumed before each call
	type edge struct {
		to *parFunc
		w  int64
		at ast.Node
	}
	adj := map[*parFunc][]edge{}
	for _, pf := range pa.Order {
		d := pa.dist(pf)
		for _, b := range pf.G.Blocks {
			if !b.Live || d[b] >= inf {
				continue
			}
			pre := d[b]
			for _, e := range pf.Events[b] {
				switch e.Kind {
				case "call":
					adj[pf] = append(adj[pf], edge{pa.Funcs[e.Callee], pre, e.Node})
				case "dyn-nud":
					for _, fd := range pa.Nuds {
						if t := pa.Funcs[fd]; t != nil {
							adj[pf] = append(adj[pf], edge{t, pre, e.Node})
						}
					}
				case "dyn-led":
					for _, fd := range pa.Leds {
						if t := pa.Funcs[fd]; t != nil {
							adj[pf] = append(adj[pf], edge{t, pre, e.Node})
						}
					}
				}
				pre = addW(pre, pa.eventW(e))
				if pre >= inf {
					break
				}
			}
		}
	}
	n := int64(len(pa.Order))
	dd := map[*parFunc]int64{}
	pred := map[*parFunc]*parFunc{}
	var last *parFunc
	for it := int64(0); it <= n; it++ {
		last = nil
		for _, pf := range pa.Order {
			for _, e := range adj[pf] {
				if e.w >= inf {
					continue
				}
				w := e.w*(n+1) - 1
				if dd[pf]+w < dd[e.to] {
					dd[e.to] = dd[pf] + w
					pred[e.to] = pf
					last = e.to
				}
			}
		}
		if last == nil {
			break
		}
	}
	if last == nil {
		edges := 0
		for _, es := range adj {
			edges += len(es)
		}
		r.ok("recursion", fmt.Sprintf("%d call edges among %d parser functions: every recursion cycle consumes at least one token before re-entering", edges, len(pa.Order)))
	} else {
		x := last
		for i := int64(0); i < n; i++ {
			x = pred[x]
		}
		var names []string
		for y := x; ; y = pred[y] {
			names = append(names, y.Name)
			if pred[y] == x || len(names) > int(n) {
				break
			}
		}
		r.fail("recursion", c.Pos(x.Decl), "parser functions "+strings.Join(names, " <- ")+" can call each other in a cycle without consuming a token: unbounded recursion on some input (stack exhaustion is fatal, not recoverable)")
	}
}
